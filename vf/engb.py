"""Engine B: shadow-valued tracing of the real numeric code into z3 terms (DESIGN.md 3.2).

The real function is executed by the ordinary interpreter on proxy numbers SFloat(float) / SInt(int) that carry a
concrete shadow value and a z3 term.  Arithmetic dunders build IEEE-754 double terms (QF_FP, bit exact) or exact real
terms (model 'real'); round() is roundToIntegral RNE, int()/trunc is RTZ; formatting an SInt yields a numbered hole.
A comparison that reaches __bool__ follows the shadow value and records the branch condition; `explore` re-runs the
function on solver-chosen inputs for every unexplored feasible branch (generational search) and only then lets the
caller discharge an obligation with  path /\\ bounds /\\ not property  == unsat.
"""
from __future__ import annotations

import builtins
import math
import re
import struct
import time
import warnings

import z3

warnings.simplefilter("ignore", DeprecationWarning)

F64 = z3.Float64()
RNE = z3.RNE()
RTZ = z3.RTZ()
BV = z3.BitVecSort(64)

L, R = "\ue000", "\ue001"
HOLE_RE = re.compile(L + r"(\d+)" + R)


class Ctx:
    model = "fp64"      # or 'real'
    holes = []
    conds = []          # [(z3 bool, taken)]
    unsupported = None


def reset(model="fp64"):
    Ctx.model = model
    Ctx.holes = []
    Ctx.conds = []
    Ctx.unsupported = None


# ------------------------------------------------------------------------------------------------
def _fp(x):
    """z3 term (FP or Real, by model) of a python number / proxy"""
    if isinstance(x, SFloat):
        return x.t
    if isinstance(x, SInt):
        if Ctx.model == "real":
            return z3.ToReal(x.t)
        return z3.fpSignedToFP(RNE, x.t, F64)
    if isinstance(x, bool):
        x = int(x)
    if Ctx.model == "real":
        if isinstance(x, int):
            return z3.RealVal(x)
        num, den = float(x).as_integer_ratio()
        return z3.RealVal(num) / z3.RealVal(den)
    return z3.FPVal(float(x), F64)


def _iv(x):
    if isinstance(x, SInt):
        return x.t
    if Ctx.model == "real":
        return z3.IntVal(int(x))
    return z3.BitVecVal(int(x), 64)


class SBool:
    """result of a comparison on proxies; branching on it records the path condition"""

    def __init__(self, v, t):
        self.v = bool(v)
        self.t = t

    def __bool__(self):
        Ctx.conds.append((self.t, self.v))
        return self.v


class SFloat(float):
    def __new__(cls, shadow, term):
        o = float.__new__(cls, shadow)
        o.t = term
        return o

    def _bin(self, other, pyop, fpop, realop, rev=False):
        a, b = (other, self) if rev else (self, other)
        sv = pyop(float(a), float(b))
        if Ctx.model == "real":
            t = realop(_fp(a), _fp(b))
        else:
            t = fpop(RNE, _fp(a), _fp(b))
        return SFloat(sv, t)

    def __mul__(s, o): return s._bin(o, lambda a, b: a * b, z3.fpMul, lambda a, b: a * b)
    def __rmul__(s, o): return s._bin(o, lambda a, b: a * b, z3.fpMul, lambda a, b: a * b, True)
    def __add__(s, o): return s._bin(o, lambda a, b: a + b, z3.fpAdd, lambda a, b: a + b)
    def __radd__(s, o): return s._bin(o, lambda a, b: a + b, z3.fpAdd, lambda a, b: a + b, True)
    def __sub__(s, o): return s._bin(o, lambda a, b: a - b, z3.fpSub, lambda a, b: a - b)
    def __rsub__(s, o): return s._bin(o, lambda a, b: a - b, z3.fpSub, lambda a, b: a - b, True)
    def __truediv__(s, o): return s._bin(o, lambda a, b: a / b, z3.fpDiv, lambda a, b: a / b)
    def __rtruediv__(s, o): return s._bin(o, lambda a, b: a / b, z3.fpDiv, lambda a, b: a / b, True)

    def __neg__(s):
        return SFloat(-float(s), -s.t if Ctx.model == "real" else z3.fpNeg(s.t))

    def __pos__(s):
        return s

    def __abs__(s):
        if Ctx.model == "real":
            return SFloat(abs(float(s)), z3.If(s.t >= 0, s.t, -s.t))
        return SFloat(abs(float(s)), z3.fpAbs(s.t))

    def _toint(s, mode, sv):
        if Ctx.model == "real":
            if mode == "rne":
                # exact reals: round half to even
                fl = z3.ToInt(s.t)
                frac = s.t - z3.ToReal(fl)
                t = z3.If(frac < z3.RealVal("1/2"), fl, z3.If(frac > z3.RealVal("1/2"), fl + 1,
                                                             z3.If(fl % 2 == 0, fl, fl + 1)))
            else:
                fl = z3.ToInt(s.t)
                t = z3.If(z3.Or(s.t >= 0, z3.ToReal(fl) == s.t), fl, fl + 1)
            return SInt(sv, t)
        rm = RNE if mode == "rne" else RTZ
        return SInt(sv, z3.fpToSBV(rm, z3.fpRoundToIntegral(rm, s.t), BV))

    def __round__(s, nd=None):
        if nd is not None:
            Ctx.unsupported = "round(x, ndigits)"
            return round(float(s), nd)
        return s._toint("rne", round(float(s)))

    def __int__(s):
        return s._toint("rtz", int(float(s)))

    __trunc__ = __int__

    def __floor__(s):
        Ctx.unsupported = "floor"
        return math.floor(float(s))

    def __ceil__(s):
        Ctx.unsupported = "ceil"
        return math.ceil(float(s))

    def _cmp(s, o, pyop, fpop, realop):
        if Ctx.model == "real":
            return SBool(pyop(float(s), float(o)), realop(_fp(s), _fp(o)))
        return SBool(pyop(float(s), float(o)), fpop(_fp(s), _fp(o)))

    def __lt__(s, o): return s._cmp(o, lambda a, b: a < b, z3.fpLT, lambda a, b: a < b)
    def __le__(s, o): return s._cmp(o, lambda a, b: a <= b, z3.fpLEQ, lambda a, b: a <= b)
    def __gt__(s, o): return s._cmp(o, lambda a, b: a > b, z3.fpGT, lambda a, b: a > b)
    def __ge__(s, o): return s._cmp(o, lambda a, b: a >= b, z3.fpGEQ, lambda a, b: a >= b)
    def __eq__(s, o): return s._cmp(o, lambda a, b: a == b, z3.fpEQ, lambda a, b: a == b)
    def __ne__(s, o): return s._cmp(o, lambda a, b: a != b, z3.fpNEQ, lambda a, b: a != b)
    __hash__ = float.__hash__

    def __bool__(s):
        return bool(s != 0.0)

    def __format__(s, spec):
        Ctx.unsupported = "a float was rendered"
        return format(float(s), spec)


def _add(a, b):
    return a + b


def _sub(a, b):
    return a - b


def _mul(a, b):
    return a * b


_add.__name__, _sub.__name__, _mul.__name__ = "add", "sub", "mul"


class SInt(int):
    def __new__(cls, shadow, term):
        o = int.__new__(cls, shadow)
        o.t = term
        return o

    def __int__(s):
        return s

    def __index__(s):
        Ctx.unsupported = "a symbolic int was used as an index"
        return int.__int__(s)

    def _asfloat(s):
        return SFloat(float(int.__int__(s)), _fp(s))

    def _bin(s, o, pyop, top, rev=False):
        if isinstance(o, float):
            f = s._asfloat()
            name = {"add": "__radd__" if rev else "__add__", "sub": "__rsub__" if rev else "__sub__",
                    "mul": "__rmul__" if rev else "__mul__"}[pyop.__name__]
            return getattr(f, name)(o)
        a, b = (o, s) if rev else (s, o)
        return SInt(pyop(int.__int__(a) if isinstance(a, SInt) else int(a), int.__int__(b) if isinstance(b, SInt) else int(b)),
                    top(_iv(a), _iv(b)))

    def __add__(s, o): return s._bin(o, _add, lambda a, b: a + b)
    def __radd__(s, o): return s._bin(o, _add, lambda a, b: a + b, True)
    def __sub__(s, o): return s._bin(o, _sub, lambda a, b: a - b)
    def __rsub__(s, o): return s._bin(o, _sub, lambda a, b: a - b, True)
    def __mul__(s, o): return s._bin(o, _mul, lambda a, b: a * b)
    def __rmul__(s, o): return s._bin(o, _mul, lambda a, b: a * b, True)

    def __truediv__(s, o):
        sv = int.__int__(s) / (float(o))
        if Ctx.model == "real":
            return SFloat(sv, _fp(s) / _fp(o))
        return SFloat(sv, z3.fpDiv(RNE, _fp(s), _fp(o)))

    def __rtruediv__(s, o):
        sv = float(o) / int.__int__(s)
        if Ctx.model == "real":
            return SFloat(sv, _fp(o) / _fp(s))
        return SFloat(sv, z3.fpDiv(RNE, _fp(o), _fp(s)))

    def _cmp(s, o, pyop, top):
        if isinstance(o, float):
            Ctx.unsupported = "int/float comparison"
            return SBool(pyop(int.__int__(s), float(o)), z3.BoolVal(pyop(int.__int__(s), float(o))))
        return SBool(pyop(int.__int__(s), int(o)), top(_iv(s), _iv(o)))

    def __lt__(s, o): return s._cmp(o, lambda a, b: a < b, lambda a, b: a < b)
    def __le__(s, o): return s._cmp(o, lambda a, b: a <= b, lambda a, b: a <= b)
    def __gt__(s, o): return s._cmp(o, lambda a, b: a > b, lambda a, b: a > b)
    def __ge__(s, o): return s._cmp(o, lambda a, b: a >= b, lambda a, b: a >= b)
    def __eq__(s, o): return s._cmp(o, lambda a, b: a == b, lambda a, b: a == b)
    def __ne__(s, o): return s._cmp(o, lambda a, b: a != b, lambda a, b: a != b)
    __hash__ = int.__hash__

    def __format__(s, spec):
        if spec not in ("", "d"):
            Ctx.unsupported = "int rendered with format spec %r" % spec
            return format(int.__int__(s), spec)
        Ctx.holes.append(s)
        return "%s%d%s" % (L, len(Ctx.holes) - 1, R)

    def __str__(s):
        return s.__format__("")

    __repr__ = __str__


# shims injected into the namespace of the module under test ---------------------------------------
def sym_int(x=0, *a):
    if isinstance(x, (SFloat, SInt)) and not a:
        return x.__int__()
    return builtins.int(x, *a)


def sym_round(x, nd=None):
    if isinstance(x, SFloat):
        return x.__round__(nd)
    return builtins.round(x, nd) if nd is not None else builtins.round(x)


def sym_sum(it, start=0):
    t = start
    for x in it:
        t = t + x
    return t


def sym_max(*a, **k):
    if len(a) == 1:
        a = tuple(a[0])
    best = a[0]
    for x in a[1:]:
        if x > best:
            best = x
    return best


def sym_min(*a, **k):
    if len(a) == 1:
        a = tuple(a[0])
    best = a[0]
    for x in a[1:]:
        if x < best:
            best = x
    return best


def sym_isinstance(obj, cls):
    return builtins.isinstance(obj, cls)


SHIMS = {"int": sym_int, "round": sym_round, "sum": sym_sum, "max": sym_max, "min": sym_min}


class shims:
    """with shims(mod1, mod2): ...  -- install int/round/sum/max/min shims in the modules' globals"""

    def __init__(self, *mods):
        self.mods = mods

    def __enter__(self):
        for m in self.mods:
            for k, v in SHIMS.items():
                setattr(m, k, v)

    def __exit__(self, *a):
        for m in self.mods:
            for k in SHIMS:
                try:
                    delattr(m, k)
                except AttributeError:
                    pass


# inputs ----------------------------------------------------------------------------------------------
def fvar(name):
    return z3.Real(name) if Ctx.model == "real" else z3.FP(name, F64)


def fbounds(v, lo, hi):
    if Ctx.model == "real":
        return [v >= _fp(lo), v <= _fp(hi)]
    return [z3.fpGEQ(v, z3.FPVal(lo, F64)), z3.fpLEQ(v, z3.FPVal(hi, F64))]


def model_float(m, v):
    """python float of variable v in model m"""
    x = m.eval(v, model_completion=True)
    if Ctx.model == "real":
        if z3.is_rational_value(x):
            return float(x.numerator_as_long()) / float(x.denominator_as_long())
        return float(x.approx(20).numerator_as_long()) / float(x.approx(20).denominator_as_long())
    if z3.is_fprm(x):
        raise ValueError
    if x.isNaN():
        return float("nan")
    if x.isInf():
        return float("-inf") if x.isNegative() else float("inf")
    bv = z3.simplify(z3.fpToIEEEBV(x))
    return struct.unpack(">d", struct.pack(">Q", bv.as_long()))[0]


def holes_in(s):
    return [int(k) for k in HOLE_RE.findall(s)]


def hole_after(s, kw):
    """the SInt rendered right after control word kw (e.g. '\\\\paperw') in s"""
    m = re.search(re.escape(kw) + L + r"(\d+)" + R, s)
    if not m:
        return None
    return Ctx.holes[int(m.group(1))]


def concrete_after(s, kw):
    m = re.search(re.escape(kw) + r"(-?\d+)", s)
    return int(m.group(1)) if m else None


# exploration -----------------------------------------------------------------------------------------
def explore(run, variables, bounds, seeds, model="fp64", max_paths=64, timeout_ms=60000):
    """Run `run(values: dict name->float)` (which builds proxies itself through `mk`) along every feasible path.

    run(values) must return a dict of results and may branch on proxies.  Yields (path_conds, result, values).
    `variables`: dict name -> z3 var; `bounds`: list of z3 constraints over them; `seeds`: initial values dict."""
    paths = []
    todo = [dict(seeds)]
    seen = set()
    stats = {"queries": 0, "solver_s": 0.0, "unknown": 0}
    while todo and len(paths) < max_paths:
        vals = todo.pop()
        reset(model)
        res = run(vals)
        conds = list(Ctx.conds)
        key = tuple((str(c), t) for c, t in conds)
        if key in seen:
            continue
        seen.add(key)
        paths.append((conds, res, vals, list(Ctx.holes), Ctx.unsupported))
        # schedule negations
        for i in range(len(conds)):
            prefix = [c if t else z3.Not(c) for c, t in conds[:i]]
            neg = z3.Not(conds[i][0]) if conds[i][1] else conds[i][0]
            k2 = tuple((str(c), t) for c, t in conds[:i]) + ((str(conds[i][0]), not conds[i][1]),)
            if any(k[:len(k2)] == k2 for k in seen):
                continue
            s = z3.Solver()
            s.set("timeout", timeout_ms)
            s.add(*bounds)
            s.add(*prefix)
            s.add(neg)
            t0 = time.perf_counter()
            r = s.check()
            stats["queries"] += 1
            stats["solver_s"] += time.perf_counter() - t0
            if str(r) == "sat":
                m = s.model()
                todo.append({n: model_float(m, v) for n, v in variables.items()})
            elif str(r) == "unknown":
                stats["unknown"] += 1
    return paths, stats


def solve(constraints, timeout_ms=120000):
    s = z3.Solver()
    s.set("timeout", timeout_ms)
    s.add(*constraints)
    t0 = time.perf_counter()
    r = s.check()
    dt = time.perf_counter() - t0
    return str(r), (s.model() if str(r) == "sat" else None), dt


def solve_cvc5(constraints, timeout_s=300, logic="QF_BVFP"):
    """second solver for FP queries z3 leaves 'unknown': cvc5 binary on an SMT-LIB2 dump of the same constraints"""
    import os
    import shutil
    import subprocess
    import tempfile
    exe = shutil.which("cvc5")
    if exe is None:
        return "unknown", 0.0
    s = z3.Solver()
    s.add(*constraints)
    d = tempfile.mkdtemp(prefix="vf-cvc5-")
    try:
        p = os.path.join(d, "q.smt2")
        with open(p, "w") as f:
            f.write("(set-logic %s)\n%s\n(check-sat)\n" % (logic, s.sexpr()))
        t0 = time.perf_counter()
        try:
            r = subprocess.run([exe, "--tlimit=%d" % (timeout_s * 1000), p], capture_output=True, text=True, timeout=timeout_s + 30)
            out = (r.stdout + r.stderr).strip().splitlines()
        except subprocess.TimeoutExpired:
            out = ["unknown"]
        dt = time.perf_counter() - t0
    finally:
        shutil.rmtree(d, ignore_errors=True)
    if any("(error" in l for l in out):
        return "unknown", dt
    for l in out:
        if l.strip() in ("sat", "unsat", "unknown"):
            return l.strip(), dt
    return "unknown", dt
