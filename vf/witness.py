"""Path witnesses / assumption validation (DESIGN.md 3.6): concrete runs through the public API.
They validate stubs and decomposition; they are reported separately from the solver obligations."""
import hashlib
import json
import os

from . import runner


def run_witnesses(run, target, kwargs, timeout=600):
    r = runner._run_worker(["py", target, json.dumps(kwargs)], timeout=timeout)
    run.witness["replayed"] = r.get("replayed", 0)
    run.witness["samples"] = r.get("samples", [])[:3]
    run.witness.setdefault("violation_paths", [])
    known = [k for k in runner.load_known() if k.get("property") == run.pid and k.get("witness")]
    if r.get("verdict") == "inconclusive" and r.get("reason"):
        print("  [%s] witnesses: INCONCLUSIVE %s" % (run.pid, r.get("reason", "")[:300]), flush=True)
        run.extra["witness_error"] = r.get("reason", "")[:500] + r.get("traceback", "")[-500:]
        return
    for v in r.get("violations", []):
        hit = None
        for k in known:
            if runner.region_holds(k["region"], {"kw": v.get("args", {})}):
                hit = k
                break
        if hit:
            run.note_known({"what": hit["what"], "args": v.get("args"), "id": hit.get("id")})
            continue
        if len(run.witness["violation_paths"]) >= 3:
            run.witness["suppressed"] = run.witness.get("suppressed", 0) + 1
            continue
        d = os.path.join(runner.REPLAY_DIR, run.pid)
        os.makedirs(d, exist_ok=True)
        h = hashlib.sha1(json.dumps(v, sort_keys=True, default=repr).encode()).hexdigest()[:10]
        path = os.path.join(d, "witness-%s.json" % h)
        with open(path, "w") as f:
            json.dump({"property": run.pid, "witness": True, "replay": v}, f, indent=1, default=repr)
        run.witness["violation_paths"].append(path)
        print("  witness violation: %s" % json.dumps(v, default=repr)[:400], flush=True)
    print("  [%s] witnesses replayed through the public API: %d, violations: %d" % (
        run.pid, run.witness["replayed"], len(run.witness["violation_paths"])), flush=True)
