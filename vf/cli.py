"""bin/check entry point."""
import importlib
import json
import os
import sys

from . import runner


def main(argv):
    if len(argv) >= 2 and argv[0] == "--replay":
        return replay(argv[1])
    pid = argv[0]
    tier = argv[1] if len(argv) > 1 else os.environ.get("VERIF_TIER", "quick")
    if tier not in ("quick", "thorough"):
        tier = "quick"
    seed = int(os.environ.get("VERIF_SEED", "0") or 0)
    mod = importlib.import_module("vf.props." + pid)
    run = runner.Run(pid, tier, seed)
    try:
        obs, meta = mod.build(tier, seed)
        only = os.environ.get("VF_ONLY")
        if only:
            import fnmatch
            obs = [o for o in obs if any(fnmatch.fnmatch(o.oid, pat) for pat in only.split(","))]
        run.run_all(obs)
        if hasattr(mod, "after"):
            mod.after(run, tier, seed)
        return run.finish(meta)
    finally:
        run.cleanup()


def replay(path):
    """Re-run a recorded counterexample against the current tree."""
    import tempfile
    with open(path) as f:
        rec = json.load(f)
    if not rec.get("harness"):
        print("replay record has no harness; recorded details:\n" + json.dumps(rec.get("replay"), indent=1))
        return 0
    d = tempfile.mkdtemp(prefix="vf-replay-")
    try:
        hp = os.path.join(d, "h_replay.py")
        with open(hp, "w", encoding="utf-8") as f:
            f.write(rec["harness"])
        u = runner._run_worker(["call", hp, "body", json.dumps(rec["args"])], timeout=300)
        print("unit replay:", json.dumps(u)[:1500])
        if "def api(" in rec["harness"]:
            a = runner._run_worker(["call", hp, "api", json.dumps(rec["args"])], timeout=300)
            print("api replay:", json.dumps(a)[:1500])
        bad = u.get("exception") is not None or u.get("truthy") is False
        print("REPRODUCED" if bad else "NOT REPRODUCED")
        return 1 if bad else 0
    finally:
        import shutil
        shutil.rmtree(d, ignore_errors=True)


if __name__ == "__main__":
    sys.exit(main(sys.argv[1:]))
