"""Harness helpers for the pagination kernels (C02, C03, C04, C05): run the REAL rtflite functions with the
compiled-extension boundary (polars frames, Pillow width measurement) replaced by listed stubs."""
from types import SimpleNamespace as NS

import rtflite.pagination.core as core
from rtflite.pagination.core import PageBreakCalculator as PBC

from vf.fakes import FakeFrame, MetaFrame, PLStub

STUBS_ASSIGN = ["metadata frame -> MetaFrame (height, to_dicts()); pl.DataFrame(rows) -> recording object"]
STUBS_META = STUBS_ASSIGN + ["data frame -> FakeFrame dict-of-lists (height, width, columns, row(i, named), df[col][i])",
                             "get_string_width -> recording stub returning a per-cell constant"]


def assign(heights, subs, grps, nrow, add, new_page):
    """real PageBreakCalculator._assign_pages on n rows -> list of page numbers"""
    saved = core.pl
    core.pl = PLStub
    try:
        rows = [{"row_index": i, "total_rows": h, "is_subline_start": s, "is_group_start": g, "page": 0}
                for i, (h, s, g) in enumerate(zip(heights, subs, grps))]
        out = PBC._assign_pages(NS(pagination=NS(nrow=nrow)), MetaFrame(rows), add, new_page)
        return [r["page"] for r in out.rows]
    finally:
        core.pl = saved


def breaks_iff_required(pages, heights, subs, grps, nrow, add, new_page):
    """C04 oracle, stated on the returned assignment (not a mirror of the loop)."""
    n = len(pages)
    avail = nrow - add
    if avail < 1:
        avail = 1
    if n == 0:
        return True
    if pages[0] != 1:
        return False
    for i in range(1, n):
        forced = subs[i] or (new_page and grps[i])
        fill = 0
        for j in range(i):
            if pages[j] == pages[i - 1]:
                fill += heights[j]
        if pages[i] == pages[i - 1]:
            if forced or fill + heights[i] > avail:
                return False
        elif pages[i] == pages[i - 1] + 1:
            if not (forced or fill + heights[i] > avail):
                return False
        else:
            return False
    return True


def budget_ok(pages, heights, nrow, add):
    """C03 oracle: every page holding >= 2 rows stays within max(1, nrow - add)."""
    avail = nrow - add
    if avail < 1:
        avail = 1
    for p in set(pages):
        idx = [i for i, q in enumerate(pages) if q == p]
        if len(idx) > 1:
            tot = 0
            for i in idx:
                tot += heights[i]
            if tot > avail:
                return False
    return True


def contiguous_ok(pages):
    """C02 oracle: pages 1..P, non-decreasing in steps of 0/1 => contiguous, ordered, non-empty, one page per row."""
    if not pages:
        return True
    if pages[0] != 1:
        return False
    for i in range(1, len(pages)):
        d = pages[i] - pages[i - 1]
        if d != 0 and d != 1:
            return False
    return True


def calc_ns(nrow):
    calc = NS(pagination=NS(nrow=nrow))
    calc._calculate_header_rows = lambda *a, **k: PBC._calculate_header_rows(calc, *a, **k)
    calc._assign_pages = lambda *a, **k: PBC._assign_pages(calc, *a, **k)
    return calc


def metadata(cols, col_widths, page_by, subline_by, removed, nrow, add, new_page, width_of, calls=None):
    """real calculate_row_metadata (+ _calculate_header_rows + _assign_pages) on a FakeFrame.
    width_of(text, font, font_size) replaces get_string_width."""
    saved = (core.pl, core.get_string_width)

    def gsw(text, font="Times New Roman", font_size=12, unit="in", dpi=72.0):
        if calls is not None:
            calls.append((text, font, font_size))
        return width_of(text, font, font_size)

    core.pl = PLStub
    core.get_string_width = gsw
    try:
        df = FakeFrame(cols)
        out = PBC.calculate_row_metadata(calc_ns(nrow), df, col_widths, page_by=page_by, subline_by=subline_by,
                                         removed_column_indices=removed, additional_rows_per_page=add,
                                         new_page=new_page)
        return out.rows
    finally:
        core.pl, core.get_string_width = saved


def sig(n, spec, extra=""):
    """sig(3, 'h:int,s:bool') -> 'h0: int, h1: int, h2: int, s0: bool, ...'"""
    parts = []
    for item in spec.split(","):
        nm, ty = item.split(":")
        parts += ["%s%d: %s" % (nm, i, ty) for i in range(n)]
    if extra:
        parts.append(extra)
    return ", ".join(parts)


def lst(n, nm):
    return "[" + ", ".join("%s%d" % (nm, i) for i in range(n)) + "]"
