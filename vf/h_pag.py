"""Harness helpers for the pagination kernels (C02, C03, C04, C05): run the REAL rtflite functions with the
compiled-extension boundary (polars frames, Pillow width measurement) replaced by listed stubs."""
from vf.fakes import Stub as NS

import rtflite.pagination.core as core
from rtflite.pagination.core import PageBreakCalculator as PBC

from vf.fakes import FakeFrame, MetaFrame, PLStub
from vf.hlib import swapped
import polars as _real_pl
from rtflite.strwidth import get_string_width as _real_gsw

STUBS_ASSIGN = ["metadata frame -> MetaFrame (height, to_dicts()); pl.DataFrame(rows) -> recording object"]
STUBS_META = STUBS_ASSIGN + ["data frame -> FakeFrame dict-of-lists (height, width, columns, row(i, named), df[col][i])",
                             "get_string_width -> recording stub returning a per-cell constant"]


def assign(heights, subs, grps, nrow, add, new_page, conts=None):
    """real PageBreakCalculator._assign_pages on n rows -> list of page numbers.
    conts[i] = heading rows repeated at the top of a page that row i opens as a continuation of its group."""
    try:
      with swapped((_real_pl, PLStub)):
        rows = [{"row_index": i, "total_rows": h, "is_subline_start": s, "is_group_start": g, "page": 0}
                for i, (h, s, g) in enumerate(zip(heights, subs, grps))]
        if conts is not None:
            for r, c in zip(rows, conts):
                r["continuation_header_rows"] = c
        out = PBC._assign_pages(NS.of(PBC, pagination=NS(nrow=nrow)), MetaFrame(rows), add, new_page)
        return [r["page"] for r in out.to_dicts()]
    finally:
        pass


def _fill(pages, heights, conts, upto, page):
    """lines on `page` counting rows < upto: continuation heading of the page's first row + data heights"""
    fill = 0
    first = True
    for j in range(upto):
        if pages[j] == page:
            if first and page != pages[0] and conts is not None:
                fill += conts[j]
            first = False
            fill += heights[j]
    return fill


def breaks_iff_required(pages, heights, subs, grps, nrow, add, new_page, conts=None):
    """C04 oracle, stated on the returned assignment (not a mirror of the loop)."""
    n = len(pages)
    avail = nrow - add
    if avail < 1:
        avail = 1
    if n == 0:
        return True
    if pages[0] != 1:
        return False
    for i in range(1, n):
        forced = subs[i] or (new_page and grps[i])
        fill = _fill(pages, heights, conts, i, pages[i - 1])
        if pages[i] == pages[i - 1]:
            if forced or fill + heights[i] > avail:
                return False
        elif pages[i] == pages[i - 1] + 1:
            if not (forced or fill + heights[i] > avail):
                return False
        else:
            return False
    return True


def budget_ok(pages, heights, nrow, add, conts=None):
    """C03 oracle: every page holding >= 2 rows stays within max(1, nrow - add), the heading repeated at the top of
    a continuation page included."""
    avail = nrow - add
    if avail < 1:
        avail = 1
    for p in set(pages):
        idx = [i for i, q in enumerate(pages) if q == p]
        if len(idx) > 1:
            if _fill(pages, heights, conts, len(pages), p) > avail:
                return False
    return True


def contiguous_ok(pages):
    """C02 oracle: pages 1..P, non-decreasing in steps of 0/1 => contiguous, ordered, non-empty, one page per row."""
    if not pages:
        return True
    if pages[0] != 1:
        return False
    for i in range(1, len(pages)):
        d = pages[i] - pages[i - 1]
        if d != 0 and d != 1:
            return False
    return True


def calc_ns(nrow):
    calc = NS.of(PBC, pagination=NS(nrow=nrow))
    calc._calculate_header_rows = lambda *a, **k: PBC._calculate_header_rows(calc, *a, **k)
    calc._assign_pages = lambda *a, **k: PBC._assign_pages(calc, *a, **k)
    return calc


def metadata(cols, col_widths, page_by, subline_by, removed, nrow, add, new_page, width_of, calls=None, table_attrs=None):
    """real calculate_row_metadata (+ _calculate_header_rows + _assign_pages) on a FakeFrame.
    width_of(text, font, font_size) replaces get_string_width."""
    def gsw(text, font="Times New Roman", font_size=12, unit="in", dpi=72.0):
        if calls is not None:
            calls.append((text, font, font_size))
        return width_of(text, font, font_size)

    with swapped((_real_pl, PLStub), (_real_gsw, gsw)):
        df = FakeFrame(cols)
        out = PBC.calculate_row_metadata(calc_ns(nrow), df, col_widths, page_by=page_by, subline_by=subline_by,
                                         removed_column_indices=removed, additional_rows_per_page=add,
                                         new_page=new_page, table_attrs=table_attrs)
        return out.to_dicts()


def sig(n, spec, extra=""):
    """sig(3, 'h:int,s:bool') -> 'h0: int, h1: int, h2: int, s0: bool, ...'"""
    parts = []
    for item in spec.split(","):
        nm, ty = item.split(":")
        parts += ["%s%d: %s" % (nm, i, ty) for i in range(n)]
    if extra:
        parts.append(extra)
    return ", ".join(parts)


def lst(n, nm):
    return "[" + ", ".join("%s%d" % (nm, i) for i in range(n)) + "]"


# ---------------------------------------------------------------------------------------------------------
# chained pipeline: metadata -> pages -> group headers / boundaries -> render (token services)
# ---------------------------------------------------------------------------------------------------------
from rtflite.encoding.renderer import PageRenderer  # noqa: E402
from rtflite.pagination.strategies.grouping import PageByStrategy  # noqa: E402


class TokenEnc:
    def encode_title(self, t, method="line"):
        return "TITLE"

    def encode_subline(self, t, method="line"):
        return "SUBLINE"

    def encode_footnote(self, f, page_number=None, page_col_width=None, border_style=None):
        return [("FOOTNOTE", "table" if getattr(f, "as_table", True) else "par", border_style)]

    def encode_source(self, s, page_number=None, page_col_width=None, border_style=None):
        return [("SOURCE", "table" if getattr(s, "as_table", False) else "par", border_style)]

    def encode_spanning_row(self, text, page_width, rtf_body_attrs=None, col_idx=0):
        return [("SPAN", text, col_idx)]

    def encode_column_header(self, df, attrs, w):
        if df is None and not getattr(attrs, "text", None):
            return None
        return [("HROW",)]


class TokenDoc:
    def generate_page_break(self, document):
        return "BREAK"


class TokenFig:
    def encode_figure(self, f):
        return "FIG"


def token_renderer(real_headers=False):
    r = PageRenderer.__new__(PageRenderer)
    r.encoding_service = TokenEnc()
    r.document_service = TokenDoc()
    r.figure_service = TokenFig()
    return r


def row_attrs():
    return NS(_encode=lambda seg, cw, row_offset=0: [("ROW", seg.row(i)[-1], row_offset + i) for i in range(seg.height)])


def chain(cols, page_by, heights, nrow, add, new_page, pageby_row, subline_by=None):
    """Run the real metadata -> _assign_pages -> _get_group_headers/_detect_group_boundaries -> render chain on a
    FakeFrame whose last column 'v' holds the row tags r0..; returns (meta_rows, [tokens per page]).
    The paginate() glue (unique pages, [min,max] slice) is mirrored here because it runs inside polars."""
    n = len(heights)
    tags = ["r%d" % i for i in range(n)]
    W = {t: h - 0.5 for t, h in zip(tags, heights)}
    cols = dict(cols)
    cols["v"] = tags
    removed = [i for i, c in enumerate(cols) if c != "v"]
    rows = metadata(cols, [1.0], page_by, subline_by, removed, nrow, add, new_page,
                    lambda t, f, s: W.get(t, 0.5))
    df = FakeFrame(cols)
    strat = PageByStrategy()
    pages = []
    r = token_renderer()
    r._render_column_headers = lambda d, p: []
    pnums = []
    for m in rows:
        if m["page"] not in pnums:
            pnums.append(m["page"])
    for p in pnums:
        idx = [m["row_index"] for m in rows if m["page"] == p]
        start, end = min(idx), max(idx)
        info = strat._get_group_headers(df, page_by, start) if page_by else None
        gb = strat._detect_group_boundaries(df, page_by, start, end) if page_by else []
        page = NS(is_first_page=(p == pnums[0]), is_last_page=(p == pnums[-1]), subline_header=None, needs_header=False,
                  pageby_header_info=info, group_boundaries=gb or None, component_borders={}, page_number=p,
                  final_body_attrs=row_attrs(), table_attrs=None, data=df.slice(start, end - start + 1).select(["v"]),
                  col_widths=[1.0])
        doc = NS(rtf_title=None, rtf_subline=None, rtf_page=NS(page_title="all", page_footnote="last", page_source="last",
                                                               col_width=6.0),
                 rtf_figure=None, rtf_column_header=[], rtf_footnote=None, rtf_source=None, df=None,
                 rtf_body=NS(new_page=new_page, pageby_row=pageby_row, page_by=page_by, subline_by=subline_by))
        out = [x for x in PageRenderer.render(r, doc, page) if isinstance(x, tuple)]
        pages.append(out)
    return rows, pages


DIV = "-----"


def expected_meta(levels_keys, i, sub):
    """statement-level expectation for row i of calculate_row_metadata; levels_keys = [keys of level 0, keys of level 1, ..]
    returns (is_start, heading_rows, continuation_rows)"""
    nlev = len(levels_keys)
    key = lambda r: tuple(levels_keys[l][r] for l in range(nlev))
    if i == 0:
        first = 0
    else:
        diff = [l for l in range(nlev) if levels_keys[l][i] != levels_keys[l][i - 1]]
        first = diff[0] if diff else None
    start = first is not None
    if sub:
        # one heading paragraph naming the non-divider values
        any_value = any(levels_keys[l][i] != DIV for l in range(nlev))
        return start, (1 if (start and any_value) else 0), 0
    if start:
        hdr = sum(1 for l in range(first, nlev) if levels_keys[l][i] != DIV)
        cont = sum(1 for l in range(0, first) if levels_keys[l][i] != DIV)
    else:
        hdr = 0
        cont = sum(1 for l in range(nlev) if levels_keys[l][i] != DIV)
    return start, hdr, cont
