"""C01 - every accepted document encodes to well-formed RTF."""
from ..runner import Ob

HDR1 = r'''
from vf.hlib import NS, pick, concrete_int, holes_reset, tpl, with_tc, lex_ok, brace_depth_ok, final_depth
from vf.fakes import FakeFrame
import re
import rtflite as rtf
import rtflite.attributes as attributes
from rtflite.row import TextContent, Row, Cell, Border
METHODS = ["paragraph", "cell", "plain", "paragraph_format", "cell_format"]
JUST = ["", "l", "c", "r", "d", "j"]
'''


def build(tier, seed):
    quick = tier == "quick"
    T = 240 if quick else 600
    obs = []
    # O1: the text templates, compositionally: the two formatting fragments for every attribute value, then the five
    # templates with the three parts as tokens of the depth just established
    obs.append(Ob(
        oid="O1.paragraph_formatting", sig="sb: int, sa: int, ind: int, space: int, ju: int, hy: bool",
        pre=["0 <= sb <= 100000 and 0 <= sa <= 100000", "0 <= ind <= 3", "1 <= space <= 3", "0 <= ju <= 6"], header=HDR1, templates=True, timeout=T,
        body=r'''
    holes_reset()
    fi, li, ri = pick([(0, 0, 0), (-360, 360, 0), (720, 0, 144), (15, 15, 15)], ind)
    j = pick(JUST + ["x"], ju)
    tc = TextContent.model_construct(justification=j, indent_first=fi, indent_left=li, indent_right=ri, space=concrete_int(space, 1, 3),
                                     space_before=sb, space_after=sa, hyphenation=hy)
    try:
        out = tc._get_paragraph_formatting()
    except ValueError:
        return ju == 6
    if ju == 6 or not lex_ok(out) or "{" in out or "}" in out:
        return False
    m = re.search(r"\\sb(" + tpl.NUM + r")\\sa(" + tpl.NUM + ")", out)
    return m is not None and tpl.hole_value(m.group(1)) == sb and tpl.hole_value(m.group(2)) == sa and tpl.count_holes(out) == len(tpl.HOLES)
''',
        funcs=["rtflite.row:TextContent._get_paragraph_formatting"], stubs=["TextContent -> model_construct"],
        bounds="space before/after symbolic integers (kept symbolic through rendering), indents from 4 triples, line spacing 1..3, "
               "justification (incl. an illegal one), hyphenation symbolic",
        what="paragraph formatting is a brace-free sequence of lexically valid control words carrying the configured numbers; an "
             "illegal justification raises ValueError"))
    obs.append(Ob(
        oid="O1.text_formatting", sig="size2: int, font: int, fmt: int, col: bool, bg: bool", pre=["1 <= size2 <= 800", "1 <= font <= 10", "0 <= fmt <= 8"],
        header=HDR1, templates=True, timeout=T,
        body=r'''
    holes_reset()
    fmts = pick(["", "b", "bi", "b^", "su_", "i", "^", "bius", "bx"], fmt)
    tc = TextContent.model_construct(font=font, size=size2, format=fmts or None, color="red" if col else None,
                                     background_color="blue" if bg else None)
    try:
        out = tc._get_text_formatting()
    except ValueError:
        return fmt == 8
    ok = fmt != 8 and lex_ok(out) and final_depth(out) == 1 and out.count("{") == 1 and out.count("}") == 0
    return ok and tpl.count_holes(out) == len(tpl.HOLES)
''',
        funcs=["rtflite.row:TextContent._get_text_formatting"], stubs=["TextContent -> model_construct"],
        bounds="size (symbolic, kept symbolic) and font 1..10 symbolic, 9 format strings incl. an illegal one, text/background colour set/unset",
        what="text formatting opens exactly one group and is otherwise a sequence of valid control words; an illegal format letter "
             "raises ValueError"))
    obs.append(Ob(
        oid="O1.templates", sig="m: int", pre=["0 <= m <= 5"], header=HDR1, timeout=T,
        body=r'''
    tc = TextContent.model_construct(text="RAWTEXT")
    object.__setattr__(tc, "_get_paragraph_formatting", lambda: "\\PF")
    object.__setattr__(tc, "_get_text_formatting", lambda: "\\TF{\\f0")
    object.__setattr__(tc, "_convert_special_chars", lambda: "TXT")
    try:
        out = tc._as_rtf(pick(METHODS + ["bogus"], m))
    except ValueError:
        return m == 5
    want = ["{\\pard\\PF\\TF{\\f0 TXT}\\par}", "\\pard\\PF\\TF{\\f0 TXT}\\cell", "\\TF{\\f0 TXT}", "{\\pard\\PFRAWTEXT\\par}",
            "\\pard\\PFRAWTEXT\\cell"]
    return m < 5 and out == want[m] and (brace_depth_ok(out) if m != 2 else final_depth(out) == 0)
''',
        funcs=["rtflite.row:TextContent._as_rtf"], stubs=["the three part emitters -> tokens of the depth established by O1.paragraph_formatting / "
                                                          "O1.text_formatting / C10"],
        bounds="the five methods and an unknown one",
        what="each template closes exactly the group its text formatting opened (plus its own paragraph group); an unknown method raises ValueError"))
    obs.append(Ob(
        oid="O1.u_escapes", sig="cp: int, conv: bool, m: int", pre=["128 <= cp <= 0x10FFFF and not (0xD800 <= cp <= 0xDFFF)", "0 <= m <= 2"],
        header=HDR1 + "from vf.hlib import rtf_decode_text\n", templates=True, timeout=T,
        body=r'''
    holes_reset()
    tc = TextContent.model_construct(text="a" + chr(cp) + "b", font=1, size=9, format=None, color=None, background_color=None,
                                     justification="l", indent_first=0, indent_left=0, indent_right=0, space=1, space_before=15,
                                     space_after=15, convert=conv, hyphenation=True)
    out = tc._as_rtf(pick(METHODS, m))
    i = out.index("{\\f0 ") + 5
    j = out.index("}", i)
    units = rtf_decode_text(out[i:j])
    return lex_ok(out) and units is not None and all(isinstance(u, int) for u in units)
''',
        funcs=["rtflite.row:TextContent._as_rtf", "rtflite.row:TextContent._convert_special_chars"], stubs=["TextContent -> model_construct"],
        bounds="one symbolic non-ASCII code point (all of them) in the three escaping templates",
        what="every \\u escape carries a parameter inside RTF's signed 16-bit range and is followed by its fallback character"))
    obs.append(Ob(
        oid="O1.text.ascii", sig="c: str, m: int, conv: bool", pre=["len(c) == 1 and ' ' <= c <= '~' and c not in (chr(92), '{', '}')", "0 <= m <= 2",
                                                                     "(not conv) or c not in '^_<>='"],
        header=HDR1, timeout=T,
        body=r'''
    tc = TextContent.model_construct(text="a" + c + "b", font=1, size=9, format="b", color=None, background_color=None, justification="l",
                                     indent_first=0, indent_left=0, indent_right=0, space=1, space_before=15, space_after=15,
                                     convert=conv, hyphenation=True)
    out = tc._as_rtf(pick(METHODS, m))
    return out.count("a" + c + "b") == 1 and brace_depth_ok(out.replace("a" + c + "b", "ab")) and out.count(chr(92)) == out.replace("a" + c + "b", "").count(chr(92))
''',
        funcs=["rtflite.row:TextContent._as_rtf"], stubs=["TextContent -> model_construct"],
        bounds="one symbolic printable ASCII character (no RTF metacharacter; no trigger character when conversion is on) in the three "
               "escaping templates", what="printable ASCII text is emitted as itself, once, and adds no control sequence or brace"))
    # O2: rows
    for k in ((1, 2, 3) if quick else (1, 2, 3, 4, 5)):
        obs.append(Ob(
            oid="O2.row.k%d" % k, sig="combo: int, bs: int, pos: int", pre=["0 <= combo <= 5", "0 <= bs <= 3", "0 <= pos < %d" % k],
            header=HDR1 + "RJ = ['', 'l', 'c', 'r', 'c', 'l']\nVJ = ['top', 'center', 'bottom', 'merge_first', 'merge_rest', '']\nBS = ['single', 'double', '', None]\n",
            timeout=T,
            body=r'''
    k = %d
    widths = [1.25 * (j + 1) for j in range(k)]
    cells = []
    p, st_sym = concrete_int(pos, 0, k - 1), pick(BS, bs)
    cb = concrete_int(combo, 0, 5)
    for j in range(k):
        st = st_sym if j == p else "single"
        def bd():
            return None if st is None else Border.model_construct(style=st, width=15, color=None)
        tc = TextContent.model_construct(text="t" + str(j), font=1, size=9, format=None, color=None, background_color=None,
                                         justification="l", indent_first=0, indent_left=0, indent_right=0, space=1, space_before=15,
                                         space_after=15, convert=True, hyphenation=False)
        cells.append(Cell.model_construct(text=tc, width=widths[j], vertical_justification=VJ[cb], border_left=bd(), border_top=bd(),
                                          border_right=bd() if j == k - 1 else None, border_bottom=bd()))
    out = Row.model_construct(row_cells=cells, justification=RJ[cb], height=0.15 if cb %% 2 == 0 else 0.5)._as_rtf()
    text = "".join(out)
    cx = [int(x) for x in re.findall(r"\\cellx(-?\d+)", text)]
    ncell = len(re.findall(r"\\cell(?![a-z])", text))
    return (lex_ok(text) and brace_depth_ok(text) and len(cx) == k and ncell == k and text.count("\\trowd") == 1
            and text.count("\\row") == 1 and cx == [round(w * 1440) for w in widths] and all(x > 0 for x in cx)
            and all(cx[i] <= cx[i + 1] for i in range(k - 1)) and text.index("\\trowd") < text.index("\\cellx") < text.index("\\pard"))
''' % k,
            funcs=["rtflite.row:Row._as_rtf", "rtflite.row:Cell._as_rtf", "rtflite.row:Border._as_rtf", "rtflite.row:TextContent._as_rtf"],
            stubs=["Row / Cell / Border / TextContent -> model_construct"],
            bounds="%d cells with increasing widths; one cell at a symbolic position with border style single|double|''|absent; 6 "
                   "combinations of row justification, vertical alignment and height" % k,
            what="a row declares exactly as many \\cellx boundaries as it has \\cell contents (= number of cells), boundaries are positive "
                 "and non-decreasing, definitions precede contents, one \\trowd and one \\row, balanced groups, valid control words"))
    # O3: other emitters
    for wv, wname in enumerate(["subline_heading", "page_break", "page_settings", "font_table", "colour_table", "picture"]):
      obs.append(Ob(
        oid="O3." + wname, sig="cp: int, k: int", pre=["160 <= cp <= 0x10FFFF and not (0xD800 <= cp <= 0xDFFF)", "0 <= k <= 3"],
        header=HDR1 + r'''
from rtflite.encoding.renderer import PageRenderer
from rtflite.services.encoding_service import RTFEncodingService
from rtflite.services.color_service import color_service
from rtflite.services.figure_service import RTFFigureService
from rtflite.rtf.syntax import RTFSyntaxGenerator
SVC = RTFEncodingService()
PAGES = [NS(width=8.5, height=11, margin=[1.25, 1, 1.75, 1.25, 1.75, 1.00625], orientation="portrait"),
         NS(width=11, height=8.5, margin=[1.0, 1.0, 2, 1.25, 1.25, 1.25], orientation="landscape"),
         NS(width=8.27, height=11.69, margin=[1, 1, 1, 1, 0.5, 0.5], orientation="portrait"),
         NS(width=5.5, height=4.25, margin=[0.0, 0.0, 0.0, 0.0, 0.0, 0.0], orientation="landscape")]
PALETTES = [[], ["red"], ["red", "blue", "black", ""], ["gray", "grey", "gold"]]
''', timeout=T, templates=True,
        body=("\n    which = %d" % wv) + r'''
    holes_reset()
    w = concrete_int(which, 0, 5)
    if w == 0:
        out = with_tc(lambda: PageRenderer.__new__(PageRenderer)._generate_subline_header({"group_values": {"g": "x" + chr(cp)}}))
        return lex_ok(out) and brace_depth_ok(out) and out.startswith("{\\pard")
    kk = concrete_int(k, 0, 3)
    if w == 1:
        out = SVC.encode_page_break(PAGES[kk], lambda: SVC.encode_page_margin(PAGES[kk]))
        return lex_ok(out) and brace_depth_ok(out) and out.count("\\page") == 1
    if w == 2:
        out = SVC.encode_page_settings(PAGES[kk])
        return lex_ok(out) and brace_depth_ok(out) and ("\\landscape" in out) == (PAGES[kk].orientation == "landscape")
    if w == 3:
        out = RTFSyntaxGenerator.generate_font_table()
        return lex_ok(out) and brace_depth_ok(out) and out.startswith("{\\fonttbl") and out.count(";}") == 10
    if w == 4:
        out = color_service.generate_rtf_color_table(PALETTES[kk])
        n = len([c for c in PALETTES[kk] if c and c != "black"])
        return (out == "" and n == 0) or (lex_ok(out) and brace_depth_ok(out) and out.startswith("{\\colortbl;") and out.count(";") == n + 1)
    out = RTFFigureService._encode_single_figure(bytes([137, 80, 78, 71, 13]) * 9, pick(["png", "jpeg", "emf", "gif"], kk), 2.0, 1.5, "center")
    return lex_ok(out) and brace_depth_ok(out) and out.count("{\\pict") == 1
''',
        funcs=["rtflite.encoding.renderer:PageRenderer._generate_subline_header", "rtflite.services.encoding_service:RTFEncodingService.encode_page_break",
               "rtflite.services.encoding_service:RTFEncodingService.encode_page_margin", "rtflite.rtf.syntax:RTFSyntaxGenerator.generate_page_settings",
               "rtflite.rtf.syntax:RTFSyntaxGenerator.generate_font_table", "rtflite.services.color_service:ColorService.generate_rtf_color_table",
               "rtflite.services.figure_service:RTFFigureService._encode_single_figure"],
        bounds="subline heading with a symbolic character; page break / settings for 4 geometries; font table; colour table for 4 palettes; "
               "picture group for 4 formats",
        what="each fragment is balanced and lexically valid"))
    # O4: document skeleton
    for path, name in ((0, "single"), (1, "multi_section"), (2, "figure")):
        obs.append(Ob(
            oid="O4.skeleton." + name, sig="hdr: int, ftr: int, chunks: int, colours: bool, title: bool, fn: bool, nfig: int",
            pre=["0 <= hdr <= 2 and 0 <= ftr <= 2", "0 <= chunks <= 3", "1 <= nfig <= 3"], timeout=T,
            header=HDR1 + r'''
from vf.h_color import make_doc, NAMES
from rtflite.encoding.unified_encoder import UnifiedRTFEncoder
import rtflite.figure as figmod
class Enc:
    """component encoders return balanced, lexically valid fragments (their own well-formedness: O1-O3)"""
    def __init__(self, colours): self.colours = colours
    def encode_document_start(self): return "{\\rtf1\\ansi\n\\deff0\\deflang1033"
    def encode_font_table(self): return "{\\fonttbl{\\f0\\froman\\fcharset1\\fprq2 Times;}\n}"
    def encode_color_table(self, document=None, used_colors=None): return "{\\colortbl;\n\\red255\\green0\\blue0;\n}" if self.colours else ""
    def encode_page_header(self, cfg, method="line"): return "{\\header{\\pard h\\par}}" if (cfg is not None and cfg.text) else ""
    def encode_page_footer(self, cfg, method="line"): return "{\\footer{\\pard f\\par}}" if (cfg is not None and cfg.text) else ""
    def encode_page_settings(self, page): return "\\paperw12240\\paperh15840\n\\margl1800"
    def encode_title(self, t, method="line"): return "{\\pard T\\par}" if (t and t.text) else ""
    def encode_subline(self, t, method="line"): return "{\\pard S\\par}" if (t is not None and t.text) else ""
    def encode_footnote(self, f, page_number=None, page_col_width=None, border_style=None): return [] if f is None else ["{\\pard F\\par}"]
    def encode_source(self, s, page_number=None, page_col_width=None, border_style=None): return [] if s is None else ["{\\pard R\\par}"]
''',
            body=r'''
    path = %d
    me = UnifiedRTFEncoder.__new__(UnifiedRTFEncoder)
    me.encoding_service = Enc(colours)
    n_chunks = concrete_int(chunks, 0, 3)
    me._encode_body_section = lambda d, df, b: ["\\trowd\\cellx9000\\pard C%%d\\cell\\intbl\\row\\pard" %% i for i in range(n_chunks)]
    me.figure_service = NS(_get_dimension=lambda d, i: 5.0, _encode_single_figure=lambda data, fmt, w, h, align: "{\\pict\\pngblip 0a0b}")
    doc = make_doc([NAMES[0]] if colours else [], [1] if colours else [], multi=(path == 1), figure=(path == 2))
    def mk(kv):
        return None if kv == 0 else NS(text=["x"] if kv == 1 else None, text_color=None, text_background_color=None)
    doc.rtf_page_header, doc.rtf_page_footer = mk(hdr), mk(ftr)
    doc.rtf_title = NS(text=["t"] if title else None, text_color=None, text_background_color=None)
    doc.rtf_footnote = NS(text="f", as_table=False, text_color=None, text_background_color=None) if fn else None
    if path == 1:
        doc.model_copy = lambda update=None: NS(**dict(doc.__dict__, **(update or {})))
        for comp in (doc.rtf_title, doc.rtf_footnote, doc.rtf_page_header, doc.rtf_page_footer, doc.rtf_page):
            if comp is not None:
                comp.model_copy = (lambda c: (lambda: NS(**c.__dict__)))(comp)
        for b in doc.rtf_body:
            b.new_page = False
        doc.df = [NS(shape=(1, 1)), NS(shape=(1, 1))]
    if path == 2:
        doc.rtf_figure.figures = ["f"] * concrete_int(nfig, 1, 3)
    saved = swapped((figmod.rtf_read_figure, lambda paths: ([b"x"] * len(paths), ["png"] * len(paths))))
    saved.__enter__()
    try:
        out = me.encode(doc)
    finally:
        saved.__exit__()
    if not (out.startswith("{\\rtf1") and out.endswith("}") and lex_ok(out)):
        return False
    d = 0
    for i, ch in enumerate(out):
        if ch == "{":
            d += 1
        elif ch == "}":
            d -= 1
            if d < 0 or (d == 0 and i != len(out) - 1):
                return False
    return d == 0 and out.count("{\\header") == (1 if hdr == 1 else 0) and out.count("{\\footer") == (1 if ftr == 1 else 0)
''' % path,
            funcs=["rtflite.encoding.unified_encoder:UnifiedRTFEncoder.encode", "rtflite.encoding.unified_encoder:UnifiedRTFEncoder._encode_multi_section",
                   "rtflite.encoding.unified_encoder:UnifiedRTFEncoder._encode_figure_only"],
            stubs=["component encoders -> balanced, lexically valid fragments", "_encode_body_section -> 0..3 row chunks",
                   "pydantic model_copy -> namespace copies", "rtf_read_figure -> byte tokens"],
            bounds="%s path; page header/footer absent | text | no text, colour table present/absent, title, footnote, 0..3 body chunks, "
                   "1..3 figures: all symbolic" % name,
            what="the result starts with the RTF signature, is one top-level group whose depth returns to 0 exactly at the last "
                 "character, with nothing after it"))
    # O5: column header rendering tolerates every accepted header configuration
    for h1v in range(6):
      obs.append(Ob(
        oid="O5.column_headers.h%d" % h1v, sig="h2: int, as_colheader: bool, first: bool, has_pf: bool" + ("" if quick else ", nested: bool"),
        pre=["0 <= h2 <= 5"], timeout=T * 2,
        header=HDR1 + r'''
from vf import minipl
from rtflite.encoding.renderer import PageRenderer
import rtflite.encoding.renderer as rmod
import rtflite.services.encoding_service as esmod
def mkh(kind):
    if kind == 0:
        return None
    if kind == 1:
        return rtf.RTFColumnHeader(text=["A", "B"])
    if kind == 2:
        return rtf.RTFColumnHeader()                       # text None: auto header when as_colheader
    if kind == 3:
        return rtf.RTFColumnHeader(text=["Span"], col_rel_width=[2])
    # widths inherited at construction from a 3-column body of which page_by/subline_by left 2 columns on display
    if kind == 4:
        return rtf.RTFColumnHeader(col_rel_width=[1.0, 1.0, 1.0])
    return rtf.RTFColumnHeader(text=["A", "B"], col_rel_width=[1.0, 1.0, 1.0])
''',
        body=("\n    h1 = %d" % h1v) + ("\n    nested = False" if quick else "") + r'''
    hs = [h for h in (mkh(concrete_int(h1, 0, 5)), mkh(concrete_int(h2, 0, 5))) if h is not None]
    headers = [hs, [None]] if nested else hs
    r = PageRenderer()
    doc = NS(rtf_column_header=headers, rtf_body=NS(as_colheader=as_colheader, col_rel_width=[1.0, 1.0]),
             rtf_page=NS(border_first="double" if has_pf else None, col_width=6.0))
    page = NS(is_first_page=first, data=minipl.Frame({"a": ["1"], "b": ["2"]}), table_attrs=NS(col_rel_width=[1.0, 1.0]))
    saved = minipl.substituted()
    saved.__enter__()
    try:
        with minipl.substituted(esmod):
            try:
                out = with_tc(lambda: r._render_column_headers(doc, page))
            except ValueError:
                return True
    finally:
        saved.__exit__()
    text = "".join(out)
    rows = text.count("\\row")
    cx = len(re.findall(r"\\cellx", text))
    nc = len(re.findall(r"\\cell(?![a-z])", text))
    return isinstance(out, list) and lex_ok(text) and brace_depth_ok(text) and cx == nc and rows == text.count("\\trowd")
''',
        funcs=["rtflite.encoding.renderer:PageRenderer._render_column_headers", "rtflite.services.encoding_service:RTFEncodingService.encode_column_header",
               "rtflite.attributes:TableAttributes._encode"],
        stubs=["polars -> vf.minipl model", "TextContent -> model_construct"],
        bounds="0..2 header rows, each explicit | without text | single spanning cell | without text resp. explicit with widths inherited "
               "from a 3-column body of which 2 columns are displayed; as_colheader, first page, page border_first, nested "
               "list format: all symbolic; real RTFColumnHeader objects and the real encoders",
        what="rendering the column headers of any accepted configuration (as_colheader=False and headers without text included) raises "
             "nothing but ValueError and yields well-formed rows with as many boundaries as contents"))
    # O6: half-point sizes reach the text model
    obs.append(Ob(
        oid="O6.half_point_sizes", sig="n: int, comp: int", pre=["0 <= n <= 11", "0 <= comp <= 2"], header=HDR1 + "from vf import minipl\nimport rtflite.services.encoding_service as esmod\nfrom rtflite.services.encoding_service import RTFEncodingService\n",
        timeout=T,
        body=r'''
    size = pick([0.5, 1, 4.5, 6, 8.5, 9, 9.5, 10.5, 12, 13.5, 24, 48.5], n)
    c = concrete_int(comp, 0, 2)
    if c == 0:
        out = rtf.RTFTitle(text="t", text_font_size=size)._encode_text(text=["t"], method="line")
    elif c == 1:
        out = "".join(rtf.RTFBody(text_font_size=size)._encode(FakeFrame({"a": ["x"]}), [1.0]))
    else:
        with minipl.substituted(esmod):
            out = "".join(RTFEncodingService().encode_footnote(rtf.RTFFootnote(text="f", text_font_size=size), 1, 6.0))
    m = re.search(r"\\fs(\d+)", out)
    return m is not None and int(m.group(1)) == round(size * 2) and lex_ok(out)
''',
        funcs=["rtflite.attributes:TextAttributes._encode_text", "rtflite.attributes:TableAttributes._encode", "rtflite.row:TextContent._get_text_formatting"],
        stubs=["polars -> vf.minipl / FakeFrame"], bounds="12 font sizes incl. half-points (solver-enumerated) on a title, a body cell and a table footnote",
        what="integer and half-point font sizes are accepted by the text model and written as \\fs<2*size>"))
    # O7: recycled attribute patterns that do not divide the page shape do not crash the per-page border pass
    for top in (False, True):
        obs.append(Ob(
            oid="O7.pattern_shapes." + ("top" if top else "bottom"), sig="vr: int, vc: int, h: int, w: int, rs: int, last: bool",
            pre=["1 <= vr <= 3 and 1 <= vc <= 2", "1 <= h <= 3 and 1 <= w <= 2", "0 <= rs <= 3"], timeout=T,
            header=HDR1 + "from rtflite.pagination.processor import PageFeatureProcessor\nfrom rtflite.attributes import BroadcastValue\n"
                          "BODIES = {}\nfor _r in (1, 2, 3):\n    for _c in (1, 2, 3):\n        _p = [['single' if (i + j) %% 2 == 0 else '' for j in range(_c)] for i in range(_r)]\n"
                          "        _f = [['b' if (i + j) %% 2 == 0 else '' for j in range(_c)] for i in range(_r)]\n"
                          "        BODIES[(_r, _c)] = rtf.RTFBody(**{%r: _p, 'text_format': _f, 'text_font_size': [[8 + i for j in range(_c)] for i in range(_r)]})\n" % ("border_top" if top else "border_bottom"),
            body=r'''
    VR, VC, H, W = concrete_int(vr, 1, 3), concrete_int(vc, 1, 2), concrete_int(h, 1, 3), concrete_int(w, 1, 2)
    RS = concrete_int(rs, 0, 3)
    body = BODIES[(VR, VC)]
    doc = NS(rtf_body=body, rtf_page=NS(border_first="double", border_last="double", page_footnote="last", page_source="last"),
             rtf_column_header=[], rtf_footnote=None, rtf_source=None)
    page = NS(table_attrs=body, data=FakeFrame({"c%d" % j: ["x"] * H for j in range(W)}), is_first_page=(RS == 0), is_last_page=last,
              component_borders={}, row_start=RS, needs_header=True)
    attrs = PageFeatureProcessor()._apply_pagination_borders(doc, page)
    for name in ("border_top", "border_bottom", "text_format", "text_font_size"):
        g = BroadcastValue(value=getattr(attrs, name), dimension=(H, W)).to_list()
        if len(g) != H or any(len(r) != W for r in g):
            return False
    return True
''',
            funcs=["rtflite.pagination.processor:PageFeatureProcessor._apply_pagination_borders", "rtflite.attributes:BroadcastValue.to_list",
                   "rtflite.attributes:BroadcastValue.update_cell"],
            stubs=["page frame -> FakeFrame", "document/page -> namespaces around a REAL RTFBody"],
            bounds="a %s pattern of shape 1..3 x 1..2 recycled over a page of 1..3 rows x 1..2 columns that starts at table row 0..3 (first or later page, "
                   "last or not; dividing or not; solver-enumerated shapes)" % ("border_top" if top else "border_bottom"),
            what="every accepted attribute shape - including recycled patterns that do not divide the table - goes through the per-page "
                 "border pass without an exception and yields full grids for the borders and for per-row text attributes"))
    # O9: sections of different column counts get their own default widths at construction (shared with C08-O8)
    from .C08 import build as c08_build
    for ob in c08_build(tier, seed)[0]:
        if ob.oid == "O8.shared_components":
            ob.oid = "O9.section_widths"
            obs.append(ob)
    meta = {
        "explanation": "Whole-pipeline crash freedom runs through pydantic-core and polars and cannot be encoded; what is decided is "
                       "that every emitter produces a balanced, lexically valid fragment for EVERY attribute value (numbers kept "
                       "symbolic through rendering, one symbolic code point), that rows pair boundaries with contents, that the three "
                       "document skeletons are a single group closed only at the end, and that header rendering and half-point sizes "
                       "cannot crash on their configuration space. Concrete witnesses read whole documents back.",
        "outside": ["crash freedom of the pipeline as a whole on arbitrary DataFrames (polars dtype handling, pydantic object graphs)",
                    "texts containing raw RTF metacharacters"],
        "assumptions": ["the fragments composed by the skeleton are those whose well-formedness O1-O3 decide"],
    }
    return obs, meta


def after(run, tier, seed):
    from ..witness import run_witnesses
    run_witnesses(run, "vf.api_c01:witnesses", {"tier": tier, "seed": seed})
