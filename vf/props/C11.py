"""C11 - text conversion translates exactly the documented tokens and nothing else."""
import random

from ..runner import Ob

HDRT = r'''
from vf.hlib import NS, pick, concrete_int, holes_reset
from vf.h_text import *
from rtflite.row import TextContent
from rtflite.text_conversion.converter import TextConverter
CONV = TextConverter()
ALPHA = "^_><=\na "
'''


def table():
    import os
    import sys
    sys.path.insert(0, os.path.join(os.environ.get("VF_REPO", "/repo"), "src"))
    from rtflite.dictionary.unicode_latex import latex_to_char
    return latex_to_char


def build(tier, seed):
    quick = tier == "quick"
    T = 240 if quick else 600
    obs = []
    tab = table()
    names = sorted(k for k in tab if k[1:2].isalpha() and "[" not in k)        # reachable by the letter-run rule
    braced = [k for k in names if "{" in k]
    plain = [k for k in names if "{" not in k]
    rnd = random.Random(seed)
    if quick:
        special = [k for k in plain if any(o != k and o.startswith(k) and "{" not in o for o in plain)][:6]
        extremal = [max(plain, key=len), min(plain, key=len), plain[0], plain[-1]]      # longest / shortest / first / last name
        chosen = sorted(set(rnd.sample(plain, 40) + special + extremal)) + braced
        batches = [chosen[i:i + 18] for i in range(0, len(chosen), 18)]
    else:
        allc = plain + braced
        batches = [allc[i:i + 16] for i in range(0, len(allc), 16)]
    F = ["rtflite.text_conversion.converter:TextConverter.convert_latex_to_unicode",
         "rtflite.text_conversion.converter:TextConverter._convert_single_command",
         "rtflite.text_conversion.converter:TextConverter._handle_braced_command",
         "rtflite.text_conversion.symbols:LaTeXSymbolMapper.get_unicode_char"]
    for bi, cmds in enumerate(batches):
        longer = {c: sorted(o[len(c):] for o in plain if o != c and o.startswith(c) and "{" not in c) for c in cmds}
        obs.append(Ob(
            oid="O1.neighbour.b%02d" % bi, sig="i: int, c: str", pre=["0 <= i < %d" % len(cmds), "len(c) == 1", "c not in LETTERS and c != '{' and c != chr(92)"],
            header=HDRT + "CMDS = %r\n" % (cmds,), timeout=T,
            body=r'''
    cmd = pick(CMDS, i)
    out = CONV.convert_latex_to_unicode("a " + cmd + c + "z." + cmd)
    return out == "a " + TABLE[cmd] + c + "z." + TABLE[cmd]
''',
            funcs=F, bounds="%d table entries (symbolic index) followed by ONE SYMBOLIC character that is neither a letter nor '{' nor a "
                            "backslash, mid-text and at the end of the text" % len(cmds),
            what="the command is replaced by its mapped character, the neighbouring character and the surrounding text stay unchanged"))
        obs.append(Ob(
            oid="O1.letters_braces.b%02d" % bi, sig="i: int, k: int, var: int", pre=["0 <= i < %d" % len(cmds), "0 <= k <= 5", "0 <= var <= 1"],
            header=HDRT + "CMDS = %r\nLONGER = %r\nINNER = ['R', 'x', '', chr(92) + 'pi', 'R}{Q']\n" % (cmds, longer), timeout=T,
            body=r'''
    cmd = pick(CMDS, i)
    conts = ["x", "Q"] + LONGER[cmd][:3]
    kk = concrete_int(k, 0, 5)
    if var == 0:
        if kk >= len(conts):
            return True
        text = "n" + cmd + conts[kk] + ". " + cmd + " z"
    else:
        if kk >= len(INNER):
            return True
        text = cmd + "{" + INNER[kk] + "} and " + cmd + "{" + INNER[kk]
    return CONV.convert_latex_to_unicode(text) == ref_latex(text)
''',
            funcs=F, bounds="%d table entries (symbolic index) followed by letters (generic ones and the continuation of every longer table "
                            "entry that starts with the command) or by a brace group (known, unknown, empty, containing a command, "
                            "unclosed)" % len(cmds),
            what="the longest letter run names the command; a directly following brace group is looked up together with it; unknown "
                 "commands and unknown command+group combinations stay verbatim"))
    # O2: the special sequences, stated in reader terms
    for third in range(8):
        obs.append(Ob(
            oid="O2.special.t%d" % third, sig="a: int, b: int, conv: bool", pre=["0 <= a <= 7 and 0 <= b <= 7"], header=HDRT, timeout=T,
            body=r'''
    text = pick(ALPHA, a) + pick(ALPHA, b) + ALPHA[%d]
    out = TextContent._convert_special_chars(NS.of(TextContent, text=text, convert=conv))
    return run_events(out) == ref_events(text, conv)
''' % third,
            funcs=["rtflite.row:TextContent._convert_special_chars", "rtflite.services.text_conversion_service:TextConversionService.convert_text_content"] + F[:1],
            bounds="texts of 3 characters over {^ _ > < = newline a space}: two symbolic, the third fixed to %r; convert symbolic" % "^_><=\na "[third],
            what="with conversion on, ^ and _ switch to super/subscript, >= and <= become the comparison signs, a newline becomes a line "
                 "break and every other character is read back unchanged and in order; with conversion off the text is read back verbatim"))
    obs.append(Ob(
        oid="O2.page_keywords", sig="k: int, c: str, conv: bool", pre=["0 <= k <= 2", "len(c) == 1 and 'a' <= c <= 'z'"], header=HDRT, timeout=T,
        body=r'''
    kw = pick([chr(92) + "pagenumber", chr(92) + "totalpage", chr(92) + "pagefield"], k)
    out = TextContent._convert_special_chars(NS.of(TextContent, text=c + " " + kw, convert=conv))
    want = pick([chr(92) + "chpgn ", chr(92) + "totalpage ", "{" + chr(92) + "field{" + chr(92) + "*" + chr(92) + "fldinst NUMPAGES }} "], k)
    return out == (c + " " + want if conv else c + " " + kw)
''',
        funcs=["rtflite.row:TextContent._convert_special_chars"], bounds="the three page keywords after a symbolic lowercase letter; convert symbolic",
        what="page-number keywords become page fields when conversion is on and stay verbatim when it is off"))
    # O3: unknown commands stay verbatim
    obs.append(Ob(
        oid="O3.unknown", sig="u: int, c: str", pre=["0 <= u <= 4", "len(c) == 1", "c not in LETTERS and c != '{' and c != chr(92)"], header=HDRT, timeout=T,
        body=r'''
    name = pick([chr(92) + "foo", chr(92) + "alphax", chr(92) + "Alph", chr(92) + "mathbbb", chr(92) + "q"], u)
    text = "see " + name + c + "end"
    return CONV.convert_latex_to_unicode(text) == text
''',
        funcs=F, bounds="5 command names that are not in the table (incl. extensions/truncations of table entries) followed by a symbolic character",
        what="unknown commands stay verbatim"))
    # O4: conversion is controlled per component by text_convert (defaults and overrides in every accepted spelling)
    obs.append(Ob(
        oid="O4.per_component", sig="comp: int, ov: int", pre=["0 <= comp <= 7", "0 <= ov <= 6"], timeout=T,
        header=HDRT + r'''
import rtflite as rtf
from rtflite.attributes import BroadcastValue
COMPS = [("title", True), ("subline", False), ("page_header", False), ("page_footer", False), ("body", True), ("colheader", True),
         ("footnote", True), ("source", True)]
def make(kind, kw):
    if kind == "title": return rtf.RTFTitle(text="t", **kw)
    if kind == "subline": return rtf.RTFSubline(text="t", **kw)
    if kind == "page_header": return rtf.RTFPageHeader(text="t", **kw)
    if kind == "page_footer": return rtf.RTFPageFooter(text="t", **kw)
    if kind == "body": return rtf.RTFBody(**kw)
    if kind == "colheader": return rtf.RTFColumnHeader(text=["t"], **kw)
    if kind == "footnote": return rtf.RTFFootnote(text="t", **kw)
    return rtf.RTFSource(text="t", **kw)
''',
        body=r'''
    kind, default = pick(COMPS, comp)
    o = concrete_int(ov, 0, 6)
    table_like = kind in ("body", "colheader", "footnote", "source")
    spell = [None, True, False, [True], [False], [[True]], [[False]]][o]
    if o >= 5 and not table_like:
        return True
    kw = {} if spell is None else {"text_convert": spell}
    c = make(kind, kw)
    want = default if spell is None else (o in (1, 3, 5))
    return bool(BroadcastValue(value=c.text_convert, dimension=(1, 1)).iloc(0, 0)) == want
''',
        funcs=["rtflite.input:RTFTextComponent.__init__", "rtflite.input:RTFTableTextComponent.__init__", "rtflite.input:RTFBody.__init__",
               "rtflite.input:RTFColumnHeader.__init__", "rtflite.input:DefaultsFactory.get_title_defaults"],
        bounds="8 component kinds x text_convert unset | True | False | [True] | [False] | [[True]] | [[False]]",
        what="each component converts by its documented default (title, body, header, footnote, source: on; subline, page header/footer: "
             "off) and an explicit text_convert in any accepted spelling - scalar False included - overrides it"))
    # O5: the switch is honoured call by call - an earlier conversion of the same text with the other setting changes nothing
    obs.append(Ob(
        oid="O5.toggle_history", sig="a: int, b: int, first: bool", pre=["0 <= a <= 6 and 0 <= b <= 6"], header=HDRT, timeout=T,
        body=r"""
    PARTS = ["^", "_", "\n", "a", " ", chr(92) + "alpha ", chr(92) + "pm 1"]
    text = pick(PARTS, a) + pick(PARTS, b) + " = 2"       # comparison signs are O2's subject (known finding there)
    def want(out, conv):
        if not conv:
            return out == text            # ASCII text, conversion off: verbatim
        return run_events(out) == ref_events(ref_latex(text), True)
    out1 = TextContent._convert_special_chars(NS.of(TextContent, text=text, convert=first))
    out2 = TextContent._convert_special_chars(NS.of(TextContent, text=text, convert=not first))
    out3 = TextContent._convert_special_chars(NS.of(TextContent, text=text, convert=first))
    return want(out1, first) and want(out2, not first) and out3 == out1
""",
        funcs=["rtflite.row:TextContent._convert_special_chars", "rtflite.services.text_conversion_service:TextConversionService.convert_text_content"],
        bounds="the same text (two symbolic parts over {^ _ newline a space \\alpha \\pm} + ' = 2') converted three times in one "
               "process with the switch on/off/on or off/on/off (symbolic)",
        what="each call converts according to ITS OWN text_convert: no result of an earlier call with the other setting is reused"))
    # O6: per-line switches of a multi-line title-like component
    obs.append(Ob(
        oid="O6.line_flags", sig="a: int, b: int, k: int", pre=["0 <= a <= 4 and 0 <= b <= 4", "0 <= k <= 3"], timeout=T,
        header=HDRT + r"""
import re
import rtflite as rtf
from rtflite import attributes
from vf.hlib import with_tc
TOK = ["^2", "_i", "-", "^a b", "a_b^c"]
FLAGS = [(False, False), (False, True), (True, False), (True, True)]
TITLES = [rtf.RTFTitle(text=["", ""], text_convert=list(f)) for f in FLAGS]
""",
        body=r"""
    kk = concrete_int(k, 0, 3)
    flags = FLAGS[kk]
    lines = ["x" + pick(TOK, a) + "y", "p" + pick(TOK, b) + "q"]
    out = with_tc(lambda: attributes.TextAttributes._encode_text(TITLES[kk], lines, "line"))
    groups = re.findall(r"\{\\f0 ([^{}]*)\}", out)
    if len(groups) != 2 or out.count("{") != 3 or out.count("}") != 3:
        return False
    return all(run_events(g) == ref_events(l, f) for g, l, f in zip(groups, lines, flags))
""",
        funcs=["rtflite.attributes:TextAttributes._encode_text", "rtflite.row:TextContent._as_rtf", "rtflite.row:TextContent._convert_special_chars"],
        stubs=["TextContent(...) -> TextContent.model_construct(...)"],
        bounds="a two-line title whose lines each contain one of {^2, _i, -, ^a b, a_b^c} (symbolic) with per-line text_convert in all four "
               "combinations",
        what="each line of a multi-line component is converted according to its own text_convert value, exactly once"))
    meta = {
        "explanation": "The real regex pass is executed symbolically per table entry with a SYMBOLIC neighbouring character (class: "
                       "neither letter nor brace) and solver-enumerated letter / brace-group continuations against a reference "
                       "written from the statement; the special sequences are decided in reader terms on 3-character texts over the "
                       "trigger alphabet (two characters symbolic) by decoding the emitted run and comparing events with the "
                       "reference; unknown commands, page keywords and the per-component switch are decided likewise.",
        "outside": ["the 4 table entries the letter-run rule cannot name (\\|, \\:, \\sqrt[3], \\sqrt[4])", "texts mixing commands and "
                    "special sequences beyond the stated shapes", "quick tier: a seeded subset of the plain entries (all 26 braced "
                    "entries always); thorough: all 678"],
        "assumptions": ["the symbol table (dictionary/unicode_latex.py) is the specification of 'mapped character'"],
    }
    return obs, meta


def after(run, tier, seed):
    from ..witness import run_witnesses
    run_witnesses(run, "vf.api_c11:witnesses", {"tier": tier, "seed": seed})
