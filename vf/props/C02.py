"""C02 - no data cell is lost, duplicated, reordered or altered."""
import itertools

from ..runner import Ob
from ._pag import glue_ob, HDR, assign_ob, partitions

HDR_R = HDR + r'''
from vf.fakes import FakeFrame
from rtflite.encoding.renderer import PageRenderer
from rtflite.encoding.unified_encoder import UnifiedRTFEncoder
from rtflite.pagination.strategies.grouping import PageByStrategy
PR = ["column", "first_row"]

def render_body(n, bounds, vals, v0, new_page, pr):
    """real PageRenderer._render_body on an n-row page with recording _encode / encode_spanning_row"""
    r = PageRenderer.__new__(PageRenderer)
    r.encoding_service = NS(encode_spanning_row=lambda text, page_width, rtf_body_attrs=None, col_idx=0: [("SPAN", text)])
    attrs = NS(_encode=lambda seg, cw, row_offset=0: [("ROW", seg.row(i)[0], row_offset + i) for i in range(seg.height)])
    doc = NS(rtf_body=NS(new_page=new_page, pageby_row=PR[pr], page_by=["g"]), df=None, rtf_page=NS(col_width=6.0))
    # a boundary into a '-----' divider group carries empty group_values (_detect_group_boundaries filters it)
    gb = [{"absolute_row": b, "page_relative_row": b, "group_values": ({} if v is None else {"g": v})}
          for b, v in zip(bounds, vals)]
    page = NS(final_body_attrs=attrs, table_attrs=None, data=FakeFrame({"id": list(range(n))}), col_widths=[1.0],
              group_boundaries=gb or None, pageby_header_info={"group_values": {"g": v0}})
    return PageRenderer._render_body(r, doc, page)
'''

HDR_PREP = r'''
from vf.hlib import NS
from vf.fakes import FakeFrame
import rtflite as rtf
from rtflite.services.encoding_service import RTFEncodingService
SVC = RTFEncodingService()
COLS = ["q", "b", "z", "a"]          # deliberately not in alphabetical order
'''

HDR_CELL = r'''
from vf.hlib import NS
from vf.fakes import FakeFrame
import sys
import rtflite as rtf
import rtflite.row as row
import rtflite.attributes as attributes
_RealTC = row.TextContent
def _TC(**kw):
    return _RealTC.model_construct(**kw)
def with_tc(fn):
    saved = []
    for name, m in list(sys.modules.items()):
        if name.startswith("rtflite") and getattr(m, "TextContent", None) is _RealTC:
            saved.append(m)
            m.TextContent = _TC
    try:
        return fn()
    finally:
        for m in saved:
            m.TextContent = _RealTC
BODY = rtf.RTFBody(text_convert=False)
def cell_texts(out):
    res = []
    for x in out:
        if "\\pard" in x and x.endswith("\\cell"):
            i = x.index(" ", x.index("{\\f0")) + 1      # text starts after the delimiter space of the last format word
            j = x.rindex("}\\cell")
            res.append(x[i:j])
    return res
'''


def build(tier, seed):
    quick = tier == "quick"
    T = 240 if quick else 900
    obs = []
    # O1: every row gets exactly one page; pages are contiguous ordered non-empty ranges
    what = "page numbers start at 1 and step by 0/1 => pages are contiguous, ordered, non-empty row ranges covering every row once"
    for n in (1, 2, 3):
        obs.append(assign_ob("O1.n%d" % n, n, "contiguous_ok(pages) and len(pages) == %d" % n, what, T))
    for i, fx in enumerate(partitions(4, 1)):
        obs.append(assign_ob("O1.n4.p%d" % i, 4, "contiguous_ok(pages) and len(pages) == 4", what, T, fixed=fx))
    if not quick:
        for i, fx in enumerate(partitions(5, 2)):
            obs.append(assign_ob("O1.n5.p%d" % i, 5, "contiguous_ok(pages) and len(pages) == 5", what, T, fixed=fx))
    # O2: page slices re-derived by cumulative heights
    for k in ((1, 2, 3) if quick else (1, 2, 3, 4, 5)):
        hs = ", ".join("p%d" % i for i in range(k))
        obs.append(Ob(
            oid="O2.slices.k%d" % k, sig=", ".join("p%d: int" % i for i in range(k)), pre=["p%d >= 1" % i for i in range(k)],
            header=HDR_R, timeout=T,
            body=r'''
    P = [%s]
    calls = []
    class Rec:
        def slice(self, off, ln=None):
            calls.append((off, ln))
            return NS(height=ln, width=2, tag=(off, ln))
        width = 2
        height = sum(P)
    pages = [NS(data=NS(height=h, width=2, tag=None)) for h in P]
    UnifiedRTFEncoder._apply_data_post_processing(NS.of(UnifiedRTFEncoder), pages, Rec(), NS(group_by=None))
    off = 0
    ok = len(calls) == len(P)
    for i, h in enumerate(P):
        ok = ok and calls[i] == (off, h) and pages[i].data.tag == (off, h)
        off += h
    return ok
''' % hs,
            funcs=["rtflite.encoding.unified_encoder:UnifiedRTFEncoder._apply_data_post_processing"],
            stubs=["processed frame -> recorder of slice(offset, length) calls; PageContext -> namespace"],
            bounds="%d pages with unbounded symbolic heights >= 1" % k,
            what="page i receives slice (sum of previous heights, height_i): slices are in order and cover [0,total) once"))
    # O3: segment rendering covers all rows once in order, row_offset = page-relative index
    for n in ((2, 3, 4) if quick else (2, 3, 4, 5)):
        for r in range(0, min(n, 3 if quick else 4)):
            for bounds in itertools.combinations(range(1, n), r):
                vs = ", ".join("v%d: str" % i for i in range(r + 1)) + "".join(", d%d: bool" % i for i in range(1, r + 1))
                obs.append(Ob(
                    oid="O3.body.n%d.b%s" % (n, "_".join(map(str, bounds)) or "none"),
                    sig=vs + ", new_page: bool, pr: int", pre=["len(v%d) == 1" % i for i in range(r + 1)] + ["0 <= pr <= 1"],
                    header=HDR_R, timeout=T,
                    body=r'''
    out = render_body(%d, %r, [%s], v0, new_page, pr)
    rows = [x for x in out if x[0] == "ROW"]
    return rows == [("ROW", i, i) for i in range(%d)]
''' % (n, list(bounds), ", ".join("(None if d%d else v%d)" % (i + 1, i + 1) for i in range(r)), n),
                    funcs=["rtflite.encoding.renderer:PageRenderer._render_body"],
                    stubs=["page frame -> FakeFrame with slicing", "TableAttributes._encode / encode_spanning_row -> recorders"],
                    bounds="page of %d rows, group boundaries at %s, group values symbolic one-character strings or a '-----' divider, "
                           "new_page/pageby_row symbolic" % (n, list(bounds)),
                    what="segments between boundaries concatenate to all page rows once, in order; each row is encoded "
                         "with row_offset + i equal to its page-relative index"))
    # O4: boundary detection
    for n in ((2, 3) if quick else (2, 3, 4)):
        ks = ", ".join("k%d: str" % i for i in range(n))
        obs.append(Ob(
            oid="O4.boundaries.n%d" % n, sig=ks + ", start: int, end: int",
            pre=["len(k%d) == 1" % i for i in range(n)] + ["0 <= start <= end <= %d" % (n - 1)],
            header=HDR_R, timeout=T,
            body=r'''
    K = [%s]
    df = FakeFrame({"g": K, "v": list(range(%d))})
    got = PageByStrategy._detect_group_boundaries(NS.of(PageByStrategy), df, ["g"], start, end)
    exp = []
    for r in range(start, end):
        if K[r] != K[r + 1]:
            exp.append((r + 1, r + 1 - start, K[r + 1]))
    return [(b["absolute_row"], b["page_relative_row"], b["group_values"].get("g")) for b in got] == exp
''' % (", ".join("k%d" % i for i in range(n)), n),
            funcs=["rtflite.pagination.strategies.grouping:PageByStrategy._detect_group_boundaries"],
            stubs=["data frame -> FakeFrame"],
            bounds="%d rows, symbolic one-character keys, symbolic page range" % n,
            what="a boundary is reported at r+1 iff key[r] != key[r+1], with page_relative_row = r+1-start"))
    # O5: column removal keeps the remaining columns in order and removes exactly the consumed ones
    obs.append(Ob(
        oid="O5.column_removal", sig="pa: bool, pb: bool, pc: bool, sa: bool, sb: bool, sd: bool, new_page: bool, first_row: bool",
        pre=["not (pa and sa)", "not (pb and sb)", "(pa or pb or pc) or not new_page"],
        header=HDR_PREP, timeout=T,
        body=r'''
    page_by = [c for c, f in zip(COLS[:3], (pa, pb, pc)) if f] or None
    subline_by = [c for c, f in zip([COLS[0], COLS[1], COLS[3]], (sa, sb, sd)) if f] or None
    body = rtf.RTFBody(page_by=page_by, subline_by=subline_by, new_page=True if new_page else False,
                       pageby_row="first_row" if first_row else "column")
    df = FakeFrame({c: [c + "0", c + "1"] for c in COLS})
    processed, original, attrs = SVC.prepare_dataframe_for_body_encoding(df, body)
    removed = set(subline_by or [])
    if page_by and (not new_page or first_row):
        removed |= set(page_by)
    exp = [c for c in COLS if c not in removed]
    ok = processed.columns == exp and original.columns == COLS
    for c in exp:
        ok = ok and processed[c].to_list() == [c + "0", c + "1"]
    return ok
''',
        funcs=["rtflite.services.encoding_service:RTFEncodingService.prepare_dataframe_for_body_encoding"],
        stubs=["data frame -> FakeFrame (clone, select, columns)"],
        bounds="4 columns (names not in alphabetical order); page_by subset of the first three, subline_by subset of columns 1, 2, 4 "
               "(disjoint), new_page, pageby_row symbolic",
        what="columns consumed by subline_by, and by page_by when shown as spanning rows, are the only ones removed; the "
             "others keep their order and values"))
    # O6: null -> empty, other values via str()
    for lead in (False, True):
        for trail in (False, True):
            obs.append(Ob(
                oid="O6.cell_text.%d%d" % (lead, trail), sig="c: str, d: str, null0: bool, null1: bool",
                pre=["len(c) == 1 and 'a' <= c <= 'z'", "len(d) == 1 and 'a' <= d <= 'z'"],
                header=HDR_CELL, timeout=T,
                body=r'''
    t0 = %r + c + %r
    df = FakeFrame({"x": [None if null0 else t0], "y": [None if null1 else d]})
    out = with_tc(lambda: attributes.TableAttributes._encode(BODY, df, [1.0, 2.0]))
    return cell_texts(out) == ["" if null0 else t0, "" if null1 else d]
''' % (" " if lead else "", " " if trail else ""),
                funcs=["rtflite.attributes:TableAttributes._encode", "rtflite.row:Row._as_rtf", "rtflite.row:TextContent._as_rtf"],
                stubs=["data frame -> FakeFrame (shape, row(i))", "TextContent(...) -> model_construct"],
                bounds="1x2 table, symbolic lowercase letters, symbolic null flags, leading blank=%s trailing blank=%s; "
                       "text_convert off" % (lead, trail),
                what="a null is rendered as the empty string, any other value as its own text with surrounding blanks "
                     "preserved, cells in column order"))
    # O6b: a segment rendered with a row offset (after an in-page group heading) shows its own rows, in order
    obs.append(Ob(
        oid="O6b.segment_rows", sig="off: int, h: int, c: str", pre=["0 <= off <= 3", "1 <= h <= 3", "len(c) == 1 and 'a' <= c <= 'z'"],
        header=HDR_CELL + "from vf import minipl\nfrom vf.hlib import concrete_int\nBODY5 = rtf.RTFBody(text_convert=False, text_format=[['b'], [''], ['i'], [''], ['b'], ['']])\n",
        timeout=T,
        body=r'''
    o, hh = concrete_int(off, 0, 3), concrete_int(h, 1, 3)
    with minipl.substituted(attributes):
        seg = minipl.Frame({"x": [c + str(o + i) for i in range(hh)], "y": ["y" + str(o + i) for i in range(hh)]})
        out = with_tc(lambda: attributes.TableAttributes._encode(BODY5, seg, [1.0, 2.0], row_offset=o))
    want = []
    for i in range(hh):
        want += [c + str(o + i), "y" + str(o + i)]
    return cell_texts(out) == want
''',
        funcs=["rtflite.attributes:TableAttributes._encode"],
        stubs=["segment frame -> vf.minipl frame (accepted as pl.DataFrame by the attribute helpers)", "TextContent -> model_construct"],
        bounds="a segment of 1..3 rows encoded with row_offset 0..3 (a 6-row per-row format matrix in the attributes), one symbolic letter in "
               "the cell texts",
        what="the cells of a segment carry the segment's own values in row and column order whatever the segment's offset in the page"))
    obs.append(glue_ob("O7.section_glue", T))
    # O8: the three paginate() methods cut pages as contiguous row slices of the ORIGINAL frame (polars model)
    for which, sname in ((0, "default"), (1, "page_by"), (2, "subline")):
        obs.append(Ob(
            oid="O8.paginate_slices." + sname, sig="p1: bool, p2: bool, p3: bool, pageby_header: bool, new_page: bool", pre=[],
            header=HDR_R + "from vf.h_paginate import run_paginate\n", timeout=T,
            body=r'''
    por = [1]
    for f in (p1, p2, p3):
        por.append(por[-1] + (1 if f else 0))
    out = run_paginate(%d, por, pageby_header, new_page)
    if len(out) != por[-1]:
        return False
    seen = []
    for i, pg in enumerate(out):
        rows = [j for j, p in enumerate(por) if p == i + 1]
        got = pg.data.to_dicts()
        if [r["v"] for r in got] != ["r%%d" %% j for j in rows] or pg.data.columns != ["g", "s", "v"]:
            return False
        seen += [r["v"] for r in got]
        if pg.page_number != i + 1 or pg.total_pages != por[-1]:
            return False
    return seen == ["r0", "r1", "r2", "r3"]
''' % which,
            funcs=["rtflite.pagination.strategies.defaults:DefaultPaginationStrategy.paginate",
                   "rtflite.pagination.strategies.grouping:PageByStrategy.paginate", "rtflite.pagination.strategies.grouping:SublineStrategy.paginate"],
            stubs=["polars -> vf.minipl model (substituted in sys.modules during the call)", "calculate_row_metadata -> given page assignment",
                   "PageContext -> recording namespace"],
            bounds="4 rows assigned to 1..4 pages (symbolic break positions), pageby_header / new_page symbolic; %s strategy" % sname,
            what="pages are materialised in ascending page number, each holding exactly the rows assigned to it, all columns, in order; "
                 "every row appears on exactly one page"))
    # O9: multi-section documents render their sections in list order, each exactly once
    obs.append(Ob(
        oid="O9.section_order", sig="n: int, hdr_nested: bool, fn: bool", pre=["1 <= n <= 3"], timeout=T,
        header=HDR_R + r'''
from vf.hlib import concrete_int
class Enc:
    def encode_document_start(self): return "{START"
    def encode_font_table(self): return "{F}"
    def encode_color_table(self, document=None, used_colors=None): return ""
    def encode_page_header(self, cfg, method="line"): return ""
    def encode_page_footer(self, cfg, method="line"): return ""
    def encode_page_settings(self, page): return "SET"
''',
        body=r'''
    k = concrete_int(n, 1, 3)
    calls = []
    me = UnifiedRTFEncoder.__new__(UnifiedRTFEncoder)
    me.encoding_service = Enc()
    def section(document, df, body):
        calls.append((df.tag, body.tag, document.df.tag, document.rtf_body.tag))
        return ["SEC%d" % df.tag]
    me._encode_body_section = section
    dfs = [NS(tag=i, shape=(2, 2)) for i in range(k)]
    bodies = [NS(tag=i, new_page=False, border_bottom=[[""]], text_color=None, text_background_color=None, border_color_left=None,
                 border_color_right=None, border_color_top=None, border_color_bottom=None, border_color_first=None,
                 border_color_last=None) for i in range(k)]
    comp = lambda: NS(text=["t"], text_color=None, text_background_color=None, border_bottom=[[""]])
    doc = NS(df=dfs, rtf_body=bodies, rtf_column_header=[[None]] * k if hdr_nested else [NS(text_color=None, text_background_color=None)],
             rtf_page=NS(page_title="all", page_footnote="last", page_source="last", border_first="double", border_last="double", col_width=6.0),
             rtf_title=comp(), rtf_subline=None, rtf_footnote=comp() if fn else None, rtf_source=None, rtf_page_header=None, rtf_page_footer=None,
             rtf_figure=None)
    doc.model_copy = lambda update=None: NS(**dict(doc.__dict__, **(update or {})))
    for c in (doc.rtf_title, doc.rtf_footnote, doc.rtf_page):
        if c is not None:
            c.model_copy = (lambda cc: (lambda: NS(**cc.__dict__)))(c)
    out = me.encode(doc)
    return calls == [(i, i, i, i) for i in range(k)] and [x for x in out.split("\n") if x.startswith("SEC")] == ["SEC%d" % i for i in range(k)]
''',
        funcs=["rtflite.encoding.unified_encoder:UnifiedRTFEncoder._encode_multi_section"],
        stubs=["_encode_body_section -> recorder", "document / components -> namespaces with model_copy", "encoding service -> tokens"],
        bounds="1..3 sections, nested or flat header list, footnote present or not",
        what="each section's frame is encoded with its own body attributes, exactly once, and the sections appear in list order"))
    # O10: a cell rendered with conversion off is verbatim whatever was converted earlier in the process (shared with C11-O5)
    from .C11 import build as c11_build
    for ob in c11_build(tier, seed)[0]:
        if ob.oid == "O5.toggle_history":
            ob.oid = "O10.convert_off_history"
            obs.append(ob)
    meta = {
        "explanation": "Row conservation is decomposed into the pure-Python kernels named in the property's anchors, each executed "
                       "symbolically by CrossHair on the real code: page assignment (unbounded heights), re-slicing by cumulative "
                       "heights (unbounded page sizes), segment rendering between group boundaries (symbolic group values), "
                       "boundary detection (symbolic keys and page range), column removal (symbolic membership flags) and the "
                       "null/str display rule. z3 decides each assertion on every path.",
        "outside": ["the [min,max] polars slice in the three paginate methods and multi-section concatenation (pipeline glue "
                    "through polars; not decided)", "tables larger than the stated shapes"],
        "assumptions": ["FakeFrame slicing/select behave like polars' (row order and values preserved)"],
    }
    return obs, meta
