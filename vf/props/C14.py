"""C14 - encoding is a pure function of the document."""
from ..runner import Ob
from .C12 import F_COLOR, HDRC, RANK_PRE, STUB_COLOR

PATHS = ((0, "single"), (1, "multi_section"), (2, "figure"))

HDR_INIT = r'''
from vf.hlib import NS
import polars as pl
import rtflite as rtf
DF3 = pl.DataFrame({"a": ["1"], "b": ["2"], "c": ["3"]})
DF2 = pl.DataFrame({"x": ["1"], "y": ["2"]})
'''


def build(tier, seed):
    quick = tier == "quick"
    T = 240 if quick else 600
    obs = []
    # O1: one inductive step from an ARBITRARY residual colour context
    for path, name in PATHS:
        for ro, ranks in enumerate(([1, 2, 3], [3, 1, 2])):
            obs.append(Ob(
                oid="O1.prestate.%s.r%d" % (name, ro),
                sig="u0: bool, u1: bool, u2: bool, pre_none: bool, p0: bool, p1: bool, p2: bool, pz: bool",
                pre=[], header=HDRC, timeout=T,
                body=r'''
    def body():
        used = [n for n, u in zip(NAMES, (u0, u1, u2)) if u]
        where = [1] * len(used)
        svc._current_document_colors = None
        base = run_encode(%d, used, where)
        residual = None if pre_none else [n for n, f in zip(NAMES + ["zz"], (p0, p1, p2, pz)) if f]
        svc._current_document_colors = residual
        again = run_encode(%d, used, where)
        ok = base == again
        for site, idx in again[0]:
            ok = ok and indices_ok(used, again[1], idx)
        return ok
    return with_tables(%r, False, body)
''' % (path, path, ranks),
                funcs=F_COLOR + ["rtflite.encoding.unified_encoder:UnifiedRTFEncoder.encode"],
                stubs=STUB_COLOR + ["component encoders -> probes recording every colour index they would emit"],
                bounds="%s path; arbitrary residual colour context (None or any list over the 3 names and a foreign colour); 3 "
                       "colours with master ranks %s, any used subset" % (name, ranks),
                what="the indices emitted for a document do not depend on the colour context left behind by ANY earlier history "
                     "(so no sequence of earlier encodes, successful or failed, can influence them)"))
    # O2: explicit two-step histories, the first step may fail
    for pa, pb in ([(0, 0), (0, 1), (1, 0), (2, 0), (0, 2)] if quick else [(a, b) for a in range(3) for b in range(3)]):
        obs.append(Ob(
            oid="O2.history2.%s_then_%s" % (PATHS[pa][1], PATHS[pb][1]),
            sig="a0: bool, a1: bool, a2: bool, b0: bool, b1: bool, b2: bool, fails: bool", pre=[], header=HDRC, timeout=T,
            body=r'''
    def body():
        first = [n for n, u in zip(NAMES, (a0, a1, a2)) if u]
        target = [n for n, u in zip(NAMES, (b0, b1, b2)) if u]
        svc._current_document_colors = None
        fresh = run_encode(%d, target, [1] * len(target))
        svc._current_document_colors = None
        run_encode(%d, first, [1] * len(first), raise_in_body=fails)
        after = run_encode(%d, target, [1] * len(target))
        return fresh == after
    return with_tables([2, 3, 1], False, body)
''' % (pb, pa, pb),
            funcs=F_COLOR + ["rtflite.encoding.unified_encoder:UnifiedRTFEncoder.encode"], stubs=STUB_COLOR,
            bounds="history = one earlier %s encode (any palette, succeeding or raising ValueError in the body) then the %s target "
                   "(any palette)" % (PATHS[pa][1], PATHS[pb][1]),
            what="encoding the target after another document was encoded or failed to encode gives exactly what a fresh state gives"))
    # O3: strategy registry
    obs.append(Ob(
        oid="O3.registry", sig="s0: int, s1: int, s2: int", pre=["0 <= s0 <= 2 and 0 <= s1 <= 2 and 0 <= s2 <= 2"], timeout=T,
        header=r'''
from vf.hlib import NS
from rtflite.encoding.unified_encoder import UnifiedRTFEncoder
from rtflite.pagination.strategies import StrategyRegistry
from rtflite.pagination.strategies.defaults import DefaultPaginationStrategy
from rtflite.pagination.strategies.grouping import PageByStrategy, SublineStrategy
WANT = {"default": DefaultPaginationStrategy, "page_by": PageByStrategy, "subline": SublineStrategy}
class Stale: pass
''',
        body=r'''
    saved = dict(StrategyRegistry._strategies)
    try:
        StrategyRegistry._strategies.clear()
        for name, st in zip(WANT, (s0, s1, s2)):
            if st == 1:
                StrategyRegistry._strategies[name] = Stale
            elif st == 2:
                StrategyRegistry._strategies[name] = WANT[name]
        UnifiedRTFEncoder()
        return all(StrategyRegistry.get(n) is c for n, c in WANT.items())
    finally:
        StrategyRegistry._strategies.clear()
        StrategyRegistry._strategies.update(saved)
''',
        funcs=["rtflite.encoding.unified_encoder:UnifiedRTFEncoder.__init__", "rtflite.pagination.strategies.registry:StrategyRegistry.register"],
        bounds="each of the three registry entries initially absent | stale | correct",
        what="whatever earlier code left in the class-level strategy registry, constructing the encoder binds the three names to the "
             "three strategy classes"))
    # O4: encode does not write into the document's component objects
    for path, name in PATHS:
        obs.append(Ob(
            oid="O4.no_writes." + name, sig="u0: bool, u1: bool, u2: bool, w: int, fails: bool", pre=["0 <= w <= 3"], header=HDRC, timeout=T,
            body=r'''
    def body():
        used = [n for n, u in zip(NAMES, (u0, u1, u2)) if u]
        where = [w if (w != 0 or %d != 2) else 1] * len(used)
        run_encode(%d, used, where, encode=False)
        reference = snapshot(run_encode.last_doc)       # identically prepared, never encoded
        run_encode(%d, used, where, raise_in_body=fails and %d != 2)
        return snapshot(run_encode.last_doc) == reference
    return with_tables([1, 2, 3], False, body)
''' % (path, path, path, path),
            funcs=["rtflite.encoding.unified_encoder:UnifiedRTFEncoder.encode",
                   "rtflite.encoding.unified_encoder:UnifiedRTFEncoder._encode_multi_section"],
            stubs=STUB_COLOR + ["document and components -> namespaces (value snapshots compared)"],
            bounds="%s path; any used subset and placement; the body section succeeds or raises ValueError" % name,
            what="after encode - returned or raised - the document's component objects hold the same values as an identically prepared document that was "
                 "never encoded (nothing an encode writes can leak into a later encode)"))
    # O5: construction does not write defaults into objects shared by the caller
    obs.append(Ob(
        oid="O5.init_detached", sig="bw: int, nh: int, hw: bool, multi: bool", pre=["0 <= bw <= 2 and 0 <= nh <= 2"], header=HDR_INIT, timeout=T,
        body=r'''
    given = None if bw == 0 else ([2.0] if bw == 1 else [1.0, 2.0, 3.0])
    body = rtf.RTFBody(col_rel_width=given)
    hdrs = [rtf.RTFColumnHeader(text=["A", "B", "C"], col_rel_width=[3.0, 2.0, 1.0] if hw else None) for _ in range(nh)]
    if multi:
        d1 = rtf.RTFDocument(df=[DF3, DF3], rtf_body=[body, body], rtf_column_header=[list(hdrs), [None]] if nh else [[None], [None]])
        b1 = d1.rtf_body[0]
        h1 = d1.rtf_column_header[0] if nh else []
    else:
        d1 = rtf.RTFDocument(df=DF3, rtf_body=body, rtf_column_header=list(hdrs))
        b1 = d1.rtf_body
        h1 = d1.rtf_column_header
    want = [1, 1, 1] if bw == 0 else ([2.0, 2.0, 2.0] if bw == 1 else [1.0, 2.0, 3.0])
    ok = list(b1.col_rel_width) == want
    ok = ok and all(list(h.col_rel_width) == ([3.0, 2.0, 1.0] if hw else want) for h in h1)
    # the caller's objects are as the caller made them
    ok = ok and body.col_rel_width == given and all(h.col_rel_width == ([3.0, 2.0, 1.0] if hw else None) for h in hdrs)
    # and a later document over a 2-column frame that shares them gets its own defaults
    if bw != 2:
        d2 = rtf.RTFDocument(df=DF2, rtf_body=body)
        ok = ok and list(d2.rtf_body.col_rel_width) == ([1, 1] if bw == 0 else [2.0, 2.0])
    return ok
''',
        funcs=["rtflite.encode:RTFDocument.__init__", "rtflite.encode:RTFDocument._detach_components"],
        bounds="body col_rel_width None | one value | full; 0..2 header rows with/without own widths; single or multi-section; then a "
               "second document over a frame with another column count sharing the body",
        what="defaults written at construction land in the document's own components; objects passed by the caller keep the values "
             "the caller gave them, so a component shared by two documents behaves as if fresh in each"))
    # O6: rendering the column headers leaves the document's own header objects untouched (encode twice = encode once)
    obs.append(Ob(
        oid="O6.headers_not_written", sig="h1: int, h2: int, as_colheader: bool, first: bool, has_pf: bool, cols: int",
        pre=["0 <= h1 <= 2 and 0 <= h2 <= 2", "2 <= cols <= 3"], timeout=T,
        header=r'''
from vf.hlib import NS, concrete_int
from vf import minipl
import rtflite as rtf
from rtflite.encoding.renderer import PageRenderer
import rtflite.encoding.renderer as rmod
from rtflite.services.document_service import RTFDocumentService
def mkh(kind):
    if kind == 0:
        return rtf.RTFColumnHeader()                                   # text None: auto header from the column names
    if kind == 1:
        return rtf.RTFColumnHeader(text=["A", "B"], col_rel_width=[1, 2])
    return None
''',
        body=r'''
    hs = [h for h in (mkh(concrete_int(h1, 0, 2)), mkh(concrete_int(h2, 0, 2))) if h is not None]
    before = [h.model_dump() for h in hs]
    ncol = concrete_int(cols, 2, 3)
    doc = NS(rtf_column_header=hs, rtf_body=NS(as_colheader=as_colheader, col_rel_width=[1.0] * ncol, subline_by=None),
             rtf_page=NS(border_first="double" if has_pf else None, col_width=6.0), rtf_footnote=None, rtf_source=None)
    reserved_before = RTFDocumentService.calculate_additional_rows_per_page(NS.of(RTFDocumentService), doc)
    r = PageRenderer.__new__(PageRenderer)
    r.encoding_service = NS(encode_column_header=lambda text, hdr, w: ["HROW"] if text is not None else None)
    page = NS(is_first_page=first, data=minipl.Frame({"c%d" % j: ["x"] for j in range(ncol)}), table_attrs=NS(col_rel_width=[1.0] * ncol))
    saved = minipl.substituted()
    saved.__enter__()
    try:
        out1 = PageRenderer._render_column_headers(r, doc, page)
        out2 = PageRenderer._render_column_headers(r, doc, page)
    finally:
        saved.__exit__()
    same = [h.model_dump() for h in hs] == before and out1 == out2
    return same and RTFDocumentService.calculate_additional_rows_per_page(NS.of(RTFDocumentService), doc) == reserved_before
''',
        funcs=["rtflite.encoding.renderer:PageRenderer._render_column_headers",
               "rtflite.services.document_service:RTFDocumentService.calculate_additional_rows_per_page"],
        stubs=["polars -> vf.minipl model", "encode_column_header -> recorder", "document/page -> namespaces around REAL RTFColumnHeader objects"],
        bounds="0..2 header rows (auto text | explicit), 2..3 displayed columns, as_colheader / first page / page border symbolic; rendered twice",
        what="rendering column headers does not modify the document's header objects, so a second encode renders - and reserves rows - "
             "exactly as the first"))
    # O7: the width measurement that feeds pagination does not remember earlier measurements (shared with C20-O3)
    from .C20 import build as c20_build
    for ob in c20_build(tier, seed)[0]:
        if ob.oid == "O3.history_independent":
            ob.oid = "O7.width_history"
            obs.append(ob)
    # O8: the real footnote/source encoders leave the component they are given untouched (shared with C07-O3)
    from .C07 import build as c07_build
    for ob in c07_build(tier, seed)[0]:
        if ob.oid.startswith("O3.override."):
            ob.oid = "O8.component_untouched." + ob.oid.split(".")[-1]
            obs.append(ob)
    # O9: values handed to the attribute algebra are never written through, and the per-page border pass leaves the document's
    # body untouched (shared with C09-O1 / C09-O5): a body shared by two documents is the same for the second one
    from .C09 import build as c09_build
    for ob in c09_build(tier, seed)[0]:
        if ob.oid.startswith("O1.broadcast.") or ob.oid == "O5.page_binding":
            ob.oid = "O9." + ob.oid.split(".", 1)[1]
            obs.append(ob)
    meta = {
        "explanation": "Instead of exploring histories, the pre-state is made symbolic: for an ARBITRARY residual colour context "
                       "(the only process-global state the encode path reads, cf. the census of C15) the real encode paths must "
                       "emit the same colour indices as from a clean state - one inductive step covers histories of any length. "
                       "Explicit two-step histories with a failing first encode, the class-level strategy registry from an "
                       "arbitrary pre-registry, writes into component objects during encode, and defaults written at construction "
                       "into shared components are decided the same way.",
        "outside": ["byte equality of complete documents across histories (concrete witnesses only)", "the caller's DataFrame "
                    "(polars frames are immutable values; clone() is used before processing)"],
        "assumptions": ["the colour context and the strategy registry are the only process-global mutable state read while encoding "
                        "(validated by the shared-state census of C15 on every run)"],
    }
    return obs, meta


def after(run, tier, seed):
    from ..witness import run_witnesses
    run_witnesses(run, "vf.api_c14:witnesses", {"tier": tier, "seed": seed})
