"""C15 - concurrent encodes do not interfere."""
from ..runner import Ob
from .C12 import F_COLOR, HDRC, STUB_COLOR

PATHS = ((0, "single"), (1, "multi_section"), (2, "figure"))


def build(tier, seed):
    quick = tier == "quick"
    T = 120 if quick else 900
    obs = []
    # O0: census of process-global mutable state touched by an encode, and its cross-thread visibility (concrete probe)
    obs.append(Ob(oid="O0.shared_state_census", kind="py", target="vf.api_c15:census", kwargs={"tier": tier}, timeout=T,
                  funcs=["rtflite.services.color_service:ColorService.set_document_context",
                         "rtflite.pagination.strategies.registry:StrategyRegistry.register"],
                  bounds="module-level and class-level mutable objects of all loaded rtflite modules, snapshotted before / inside / "
                         "after real single-section, multi-section and figure encodes; visibility probed with a real second thread",
                  what="the only process-global state an encode writes is the colour context and the (idempotent) strategy registry; "
                       "anything else is reported as unmodelled shared state"))
    # O1: one preemption at every call boundary of the colour API (k ranges split over obligations)
    chunks = [(0, 3), (4, 7), (8, 11), (12, 15), (16, 19), (20, 23)]
    for path, name in PATHS:
        for lo, hi in chunks:
            sym_a = not quick
            obs.append(Ob(
                oid="O1.one_preemption.%s.k%d_%d" % (name, lo, hi),
                sig=("u0: bool, u1: bool, u2: bool, bz: bool, " if sym_a else "") + "b0: bool, b1: bool, b2: bool, k: int, op: int",
                pre=["%d <= k <= %d" % (lo, hi), "0 <= op <= 2"], header=HDRC, timeout=T,
                body=("" if sym_a else "\n    u0 = u1 = u2 = True\n    bz = False") + r'''
    def body():
        used = [n for n, u in zip(NAMES, (u0, u1, u2)) if u]
        other = [n for n, f in zip(NAMES + ["zz"], (b0, b1, b2, bz)) if f]
        where = [1] * len(used)
        alone = run_encode(%d, used, where)
        (res, calls) = run_interleaved(%d, used, where, [(k, b_op(op, other))])
        if k >= calls:
            return True            # no such call boundary in this encode: schedule not realisable
        return res == alone
    return with_tables([2, 3, 1], False, body)
''' % (path, path),
                funcs=F_COLOR + ["rtflite.encoding.unified_encoder:UnifiedRTFEncoder.encode"],
                stubs=STUB_COLOR + ["thread B -> nondeterministic environment: at the chosen call boundary it performs, on a real "
                                    "second thread, what its own encode does to the colour API (start: set context; finish: set then "
                                    "clear) with an arbitrary palette"],
                bounds="2 threads, ONE preemption before A's k-th call into the colour API, k in [%d,%d] (solver-enumerated), B started | resolved its "
                       "colours | ran a complete encode, B's palette an arbitrary subset of 3 colours%s, A's palette %s; %s path (an encode of this shape makes 14-20 such "
                       "calls; larger k are vacuous)" % (
                           lo, hi, " + a foreign one" if sym_a else "", "an arbitrary subset" if sym_a else "all 3 colours", name),
                what="thread A's result (every colour index it emits and its colour table) equals what it produces alone, for every "
                     "placement of the preemption and every palette of the other thread"))
    if not quick:
        for path, name in PATHS:
            obs.append(Ob(
                oid="O2.two_preemptions." + name, sig="u0: bool, u1: bool, u2: bool, b0: bool, b1: bool, b2: bool, k1: int, k2: int",
                pre=["0 <= k1 <= k2 <= 40"], header=HDRC, timeout=T,
                body=r'''
    def body():
        used = [n for n, u in zip(NAMES, (u0, u1, u2)) if u]
        other = [n for n, f in zip(NAMES, (b0, b1, b2)) if f]
        where = [1] * len(used)
        alone = run_encode(%d, used, where)
        start = lambda: svc.set_document_context(used_colors=list(other))
        finish = lambda: svc.clear_document_context()
        (res, calls) = run_interleaved(%d, used, where, [(k1, start), (k2, finish)])
        if k2 >= calls:
            return True
        return res == alone
    return with_tables([2, 3, 1], False, body)
''' % (path, path),
                funcs=F_COLOR + ["rtflite.encoding.unified_encoder:UnifiedRTFEncoder.encode"], stubs=STUB_COLOR,
                bounds="2 threads, TWO preemptions k1 <= k2 (B sets its context at k1 and clears it at k2); %s path" % name,
                what="as O1 with thread B's encode spanning a window of thread A's encode"))
    meta = {
        "explanation": "Other threads are modelled as a nondeterministic environment acting on the shared state through the same "
                       "API the library uses: CrossHair/z3 chooses the call boundary k of thread A's encode at which thread B - on a "
                       "real second thread, so that thread-local and context-local state behave as they really do - starts or "
                       "completes its own encode with an arbitrary palette. The assertion is that A's emitted indices and table "
                       "equal its sequential result for EVERY k and palette. A census of process-global mutable state validates "
                       "that the colour context is the only shared state in play.",
        "outside": ["data races inside polars / pydantic-core", "more than two preemptions", "preemptions inside a single call of "
                    "the colour API (the GIL makes each such call's bytecode interleavable in principle; modelled at call "
                    "granularity)", "free-threaded builds"],
        "assumptions": ["thread B interacts with thread A only through process-global Python objects of rtflite (census)"],
    }
    return obs, meta


def after(run, tier, seed):
    from ..witness import run_witnesses
    run_witnesses(run, "vf.api_c15:witnesses", {"tier": tier, "seed": seed})
