"""C15 - concurrent encodes do not interfere."""
from ..runner import Ob
from .C12 import F_COLOR, HDRC, STUB_COLOR

PATHS = ((0, "single"), (1, "multi_section"), (2, "figure"))


def build(tier, seed):
    quick = tier == "quick"
    T = 240 if quick else 900
    obs = []
    # O0: census of process-global mutable state touched by an encode, and its cross-thread visibility (concrete probe)
    obs.append(Ob(oid="O0.shared_state_census", kind="py", target="vf.api_c15:census", kwargs={"tier": tier}, timeout=T,
                  funcs=["rtflite.services.color_service:ColorService.set_document_context",
                         "rtflite.pagination.strategies.registry:StrategyRegistry.register"],
                  bounds="module-level and class-level mutable objects of all loaded rtflite modules, snapshotted before / inside / "
                         "after real single-section, multi-section and figure encodes; visibility probed with a real second thread",
                  what="the only process-global state an encode writes is the colour context and the (idempotent) strategy registry; "
                       "anything else is reported as unmodelled shared state"))
    # O1: one preemption at every call boundary of the colour API (k ranges split over obligations)
    chunks = [(0, 3), (4, 7), (8, 11), (12, 15), (16, 19), (20, 23)]
    for path, name in PATHS:
        for lo, hi in chunks:
            sym_a = not quick
            obs.append(Ob(
                oid="O1.one_preemption.%s.k%d_%d" % (name, lo, hi),
                sig=("u0: bool, u1: bool, u2: bool, bz: bool, " if sym_a else "") + "b0: bool, b1: bool, b2: bool, k: int, op: int",
                pre=["%d <= k <= %d" % (lo, hi), "0 <= op <= 2"], header=HDRC, timeout=T,
                body=("" if sym_a else "\n    u0 = u1 = u2 = True\n    bz = False") + r'''
    def body():
        used = [n for n, u in zip(NAMES, (u0, u1, u2)) if u]
        other = [n for n, f in zip(NAMES + ["zz"], (b0, b1, b2, bz)) if f]
        where = [1] * len(used)
        alone = run_encode(%d, used, where)
        (res, calls) = run_interleaved(%d, used, where, [(k, b_op(op, other))])
        if k >= calls:
            return True            # no such call boundary in this encode: schedule not realisable
        return res == alone
    return with_tables([2, 3, 1], False, body)
''' % (path, path),
                funcs=F_COLOR + ["rtflite.encoding.unified_encoder:UnifiedRTFEncoder.encode"],
                stubs=STUB_COLOR + ["thread B -> nondeterministic environment: at the chosen call boundary it performs, on a real "
                                    "second thread, what its own encode does to the colour API (start: set context; finish: set then "
                                    "clear) with an arbitrary palette"],
                bounds="2 threads, ONE preemption before A's k-th call into the colour API, k in [%d,%d] (solver-enumerated), B started | resolved its "
                       "colours | ran a complete encode, B's palette an arbitrary subset of 3 colours%s, A's palette %s; %s path (an encode of this shape makes 14-20 such "
                       "calls; larger k are vacuous)" % (
                           lo, hi, " + a foreign one" if sym_a else "", "an arbitrary subset" if sym_a else "all 3 colours", name),
                what="thread A's result (every colour index it emits and its colour table) equals what it produces alone, for every "
                     "placement of the preemption and every palette of the other thread"))
    # O3: component objects shared with documents that other threads encode are never seen in a modified state
    for path, name in PATHS:
        obs.append(Ob(
            oid="O3.shared_objects." + name, sig="u0: bool, u1: bool, u2: bool, w: int, fails: bool",
            pre=["u0 or u1 or u2", "0 <= w <= 3"], header=HDRC, timeout=T,
            body=r"""
    def body():
        used = [n for n, u in zip(NAMES, (u0, u1, u2)) if u]
        where = [w] * len(used)
        if %d == 2:
            where = [x if x != 0 else 1 for x in where]
        bad, calls = shared_objects_stable(%d, used, where, raise_in_body=fails and %d != 2)
        return calls > 0 and bad == []
    return with_tables([2, 3, 1], False, body)
""" % (path, path, path),
            funcs=["rtflite.encoding.unified_encoder:UnifiedRTFEncoder.encode", "rtflite.encoding.unified_encoder:UnifiedRTFEncoder._encode_multi_section",
                   "rtflite.encoding.unified_encoder:UnifiedRTFEncoder._encode_figure_only"],
            stubs=STUB_COLOR + ["component encoders / body section -> probes", "any other thread -> an observer of the caller-owned component objects "
                                "(page, title, footnote, page header, column headers, bodies) at every call boundary into the colour API"],
            bounds="%s path, palette an arbitrary non-empty subset of 3 colours on body | title | page header | footnote; the body "
                   "section succeeds or raises ValueError; observation at every call boundary of the encode and after it" % name,
            what="at no call boundary during an encode - nor after it returned or raised - does a caller-owned component object differ "
                 "from its value at the start: a thread encoding another document that shares the object never reads a temporary value"))
    # O4: the width measurement that drives pagination, with a second thread measuring at every call boundary
    obs.append(Ob(
        oid="O4.width_measurement", sig="fb: int, fc: int, zb: int, zc: int, k: int",
        pre=["0 <= fb <= 1 and 0 <= fc <= 1", "0 <= zb <= 1 and 0 <= zc <= 1", "0 <= k <= 11"], timeout=T,
        header="from vf.h_width import *\nfrom vf.hlib import pick, concrete_int\nFONTS = [1, 4]\nSIZES = [9, 10.5]\n",
        body=r"""
    a1 = (1, 9, "abc")
    a2 = (pick(FONTS, fb), pick(SIZES, zb), "abcd")
    b = (pick(FONTS, fc), pick(SIZES, zc), "xy")
    kk = concrete_int(k, 0, 11)
    fresh_module()
    alone_a, _, calls = run_measurements([a1, a2])
    fresh_module()
    alone_b, _, _ = run_measurements([b])
    fresh_module()
    got_a, got_b, calls2 = run_measurements([a1, a2], kk, b)
    if kk >= calls2:
        return True                # no such call boundary: schedule not realisable
    return got_a == alone_a and got_b == alone_b[0]
""",
        funcs=["rtflite.strwidth:get_string_width"],
        stubs=["Pillow -> fonts whose measured length identifies the (font file, size, text) used",
               "thread B -> a real second thread performing one complete measurement at the chosen call boundary"],
        bounds="thread A: font 1 at 9pt, then a symbolic font (2 files) and size (2); thread B: one measurement (symbolic font and "
               "size) run to completion before A's k-th call boundary inside rtflite.strwidth (every Python function of the module, "
               "truetype, getlength; k in 0..11, solver-enumerated)",
        what="both threads obtain exactly the widths they obtain alone, wherever the other thread's measurement falls"))
    if not quick:
        for path, name in PATHS:
          for lo, hi in chunks:
            obs.append(Ob(
                oid="O2.two_preemptions.%s.k%d_%d" % (name, lo, hi), sig="b0: bool, b1: bool, b2: bool, k1: int, k2: int",
                pre=["%d <= k1 <= %d" % (lo, hi), "k1 <= k2 <= 24"], header=HDRC, timeout=T,
                body=r'''
    def body():
        used = list(NAMES)
        other = [n for n, f in zip(NAMES, (b0, b1, b2)) if f]
        where = [1] * len(used)
        alone = run_encode(%d, used, where)
        start = lambda: svc.set_document_context(used_colors=list(other))
        finish = lambda: svc.clear_document_context()
        (res, calls) = run_interleaved(%d, used, where, [(k1, start), (k2, finish)])
        if k2 >= calls:
            return True
        return res == alone
    return with_tables([2, 3, 1], False, body)
''' % (path, path),
                funcs=F_COLOR + ["rtflite.encoding.unified_encoder:UnifiedRTFEncoder.encode"], stubs=STUB_COLOR,
                bounds="2 threads, TWO preemptions %d <= k1 <= %d, k1 <= k2 <= 24 (B sets its context at k1 and clears it at k2), B's palette an "
                       "arbitrary subset of 3 colours, A uses all 3; %s path" % (lo, hi, name),
                what="as O1 with thread B's encode spanning a window of thread A's encode"))
    meta = {
        "explanation": "Other threads are modelled as a nondeterministic environment acting on the shared state through the same "
                       "API the library uses: CrossHair/z3 chooses the call boundary k of thread A's encode at which thread B - on a "
                       "real second thread, so that thread-local and context-local state behave as they really do - starts or "
                       "completes its own encode with an arbitrary palette. The assertion is that A's emitted indices and table "
                       "equal its sequential result for EVERY k and palette. A census of process-global mutable state validates "
                       "that the colour context is the only shared state in play.",
        "outside": ["preemptions at call boundaries other than the modelled ones are covered by concrete witnesses only (real documents, "
                    "thread A stopped before its k-th call of ANY function of the package while thread B encodes completely: every "
                    "k in the thorough tier; in the quick tier the first and the last instance of every distinct callee plus a seeded stride)",
                    "data races inside polars / pydantic-core", "more than two preemptions", "preemptions inside a single call of "
                    "the colour API (the GIL makes each such call's bytecode interleavable in principle; modelled at call "
                    "granularity)", "free-threaded builds"],
        "assumptions": ["thread B interacts with thread A only through process-global Python objects of rtflite (census) and through "
                        "component objects the caller shares between documents (O3)"],
    }
    return obs, meta


def after(run, tier, seed):
    from ..witness import run_witnesses
    run_witnesses(run, "vf.api_c15:witnesses", {"tier": tier, "seed": seed})
