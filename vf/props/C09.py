"""C09 - cell formatting follows the data cell."""
from ..runner import Ob
from ._pag import prep_ob

HDR9 = r'''
from vf.hlib import NS, pick, concrete_int, holes_reset, tpl, with_tc
from vf.fakes import FakeFrame
import re
import rtflite as rtf
import rtflite.attributes as attributes
from rtflite.attributes import BroadcastValue, TableAttributes
from rtflite.row import Border, Cell, Row, TextContent

def mat(R, C, tag):
    return [["%s%d%d" % (tag, r, c) for c in range(C)] for r in range(R)]
'''

TEXT_ATTRS = ["text_font", "text_font_size", "text_format", "text_color", "text_background_color", "text_justification",
              "text_indent_first", "text_indent_left", "text_indent_right", "text_space", "text_space_before", "text_space_after",
              "text_convert", "text_hyphenation"]
TC_FIELD = {"text_font": "font", "text_font_size": "size", "text_format": "format", "text_color": "color",
            "text_background_color": "background_color", "text_justification": "justification", "text_indent_first": "indent_first",
            "text_indent_left": "indent_left", "text_indent_right": "indent_right", "text_space": "space",
            "text_space_before": "space_before", "text_space_after": "space_after", "text_convert": "convert",
            "text_hyphenation": "hyphenation"}


def build(tier, seed):
    quick = tier == "quick"
    T = 240 if quick else 600
    obs = []
    # O1: recycling algebra
    for R, C in ((1, 1), (1, 3), (2, 1), (2, 3), (3, 2)):
        obs.append(Ob(
            oid="O1.broadcast.v%dx%d" % (R, C), sig="r: int, c: int, dr: int, dc: int, op: int",
            pre=["0 <= r <= 3 and 0 <= c <= 3", "1 <= dr <= 4 and 1 <= dc <= 4", "r < dr and c < dc", "0 <= op <= 3"], header=HDR9, timeout=T,
            body=r'''
    R, C = %d, %d
    val = mat(R, C, "v")
    rr, cc, DR, DC = concrete_int(r, 0, 3), concrete_int(c, 0, 3), concrete_int(dr, 1, 4), concrete_int(dc, 1, 4)
    given = [row[:] for row in val]          # the object the caller hands in: never written through
    b = BroadcastValue(value=given, dimension=(DR, DC))
    ok = b.iloc(rr, cc) == val[rr %% R][cc %% C]
    full = b.to_list()
    ok = ok and len(full) == DR and all(len(x) == DC for x in full)
    ok = ok and all(full[i][j] == val[i %% R][j %% C] for i in range(DR) for j in range(DC))
    o = concrete_int(op, 0, 3)
    if o == 1:
        new = BroadcastValue(value=given, dimension=(DR, DC)).update_cell(rr, cc, "NEW")
        want = [[("NEW" if (i == rr and j == cc) else val[i %% R][j %% C]) for j in range(DC)] for i in range(DR)]
        ok = ok and new == want
    elif o == 2:
        new = BroadcastValue(value=given, dimension=(DR, DC)).update_row(rr, ["N%%d" %% j for j in range(DC)])
        want = [[("N%%d" %% j if i == rr else val[i %% R][j %% C]) for j in range(DC)] for i in range(DR)]
        ok = ok and new == want
    elif o == 3:
        new = BroadcastValue(value=given, dimension=(DR, DC)).update_column(cc, ["N%%d" %% i for i in range(DR)])
        want = [[("N%%d" %% i if j == cc else val[i %% R][j %% C]) for j in range(DC)] for i in range(DR)]
        ok = ok and new == want
    return ok and val == mat(R, C, "v") and given == val
''' % (R, C),
            funcs=["rtflite.attributes:BroadcastValue.iloc", "rtflite.attributes:BroadcastValue.to_list", "rtflite.attributes:BroadcastValue.update_cell",
                   "rtflite.attributes:BroadcastValue.update_row", "rtflite.attributes:BroadcastValue.update_column"],
            bounds="value of shape %dx%d recycled over every table shape up to 4x4; index, shape and operation symbolic (solver-enumerated)" % (R, C),
            what="iloc(r,c) = value[r mod R][c mod C]; to_list() agrees with iloc over the whole table; update_cell/row/column change "
                 "exactly their target (no aliasing between recycled rows) and never write through into the value object the caller passed"))
    # O2: emitters write every field
    HDR_E = HDR9 + r'''
from rtflite.row import Utils, BORDER_CODES, VERTICAL_ALIGNMENT_CODES
STY = ["single", "double", "dotted", ""]
VJ = ["top", "center", "bottom", ""]
'''
    obs.append(Ob(
        oid="O2.border_emitter", sig="w: int, st: int, hascol: bool", pre=["0 <= w <= 1000", "0 <= st <= 3"], header=HDR_E, templates=True, timeout=T,
        body=r'''
    holes_reset()
    style = pick(STY, st)
    out = Border._as_rtf(Border.model_construct(style=style, width=w, color="red" if hascol else None))
    m = re.fullmatch(re.escape(BORDER_CODES[style]) + r"\\brdrw(" + tpl.NUM + r")(?:\\brdrcf(" + tpl.NUM + "))?", out)
    if m is None or tpl.hole_value(m.group(1)) != w or (m.group(2) is not None) != hascol:
        return False
    return (not hascol) or tpl.hole_value(m.group(2)) == Utils._get_color_index("red")
''',
        funcs=["rtflite.row:Border._as_rtf"], stubs=["Border -> model_construct (no pydantic validation)"],
        bounds="border width 0..1000 symbolic (kept symbolic through rendering), style symbolic, colour set/unset",
        what="a border emits its style word, \\brdrw<width> and, when coloured, \\brdrcf<index of that colour>"))
    obs.append(Ob(
        oid="O2.border_colour_history", sig="k1: int, k2: int, w: int", pre=["0 <= k1 <= 3 and 0 <= k2 <= 3", "1 <= w <= 60"], header=HDR_E + r"""
from rtflite.services.color_service import color_service as svc
PALETTES = [None, ["red"], ["blue", "red"], ["blue", "green", "red"]]
""", templates=True, timeout=T,
        body=r"""
    holes_reset()
    ok = True
    try:
        for k in (k1, k2):
            pal = pick(PALETTES, k)
            svc.set_document_context(used_colors=pal)
            out = Border._as_rtf(Border.model_construct(style="single", width=w, color="red"))
            m = re.fullmatch(r"\\brdrs\\brdrw(" + tpl.NUM + r")\\brdrcf(" + tpl.NUM + ")", out)
            ok = ok and m is not None and tpl.hole_value(m.group(1)) == w and tpl.hole_value(m.group(2)) == Utils._get_color_index("red")
            ok = ok and (pal is None or tpl.hole_value(m.group(2)) == len(pal))
    finally:
        svc.clear_document_context()
    return ok
""",
        funcs=["rtflite.row:Border._as_rtf", "rtflite.services.color_service:ColorService.get_rtf_color_index"],
        stubs=["Border -> model_construct"],
        bounds="the same red border (symbolic width 1..60) emitted under two document palettes in a row (each none | {red} | {blue,red} | "
               "{blue,green,red}; symbolic)",
        what="the colour index a border emits is the colour's position in the CURRENT document's table - nothing is remembered from "
             "the border emitted for an earlier document"))
    obs.append(Ob(
        oid="O2.cell_emitter", sig="vj: int, bl: bool, bt: bool, br: bool, bb: bool", pre=["0 <= vj <= 3"], header=HDR_E, timeout=T,
        body=r'''
    vjust = pick(VJ, vj)
    def border(on, style):
        return Border.model_construct(style=style, width=15, color=None) if on else None
    cell = Cell.model_construct(text=None, width=2.5, vertical_justification=vjust, border_left=border(bl, "single"), border_top=border(bt, "double"),
                                border_right=border(br, "dotted"), border_bottom=border(bb, "dashed"))
    c = Cell._as_rtf(cell)
    want = ""
    for on, side, word in ((bl, "l", "\\brdrs"), (bt, "t", "\\brdrdb"), (br, "r", "\\brdrdot"), (bb, "b", "\\brdrdash")):
        if on:
            want += "\\clbrdr" + side + word + "\\brdrw15"
    return c == want + VERTICAL_ALIGNMENT_CODES[vjust] + "\\cellx3600"
''',
        funcs=["rtflite.row:Cell._as_rtf"], stubs=["Border / Cell -> model_construct"],
        bounds="vertical alignment symbolic, each of the four sides present/absent with its own style",
        what="a cell emits each side with that side's own border, in the order left, top, right, bottom, then the vertical alignment, "
             "then \\cellx of its width"))
    # O3: _encode binds cell (row_offset+i, j) to attribute (row_offset+i, j)
    for shape in ("scalar", "vector", "matrix"):
        obs.append(Ob(
            oid="O3.encode_binding." + shape, sig="off: int, h: int", pre=["0 <= off <= 3", "1 <= h <= 2"], header=HDR9 + r'''
NCOL, NROW = 3, 5
ATTRS = %r
TC_FIELD = %r
BORDERS = ["border_left", "border_right", "border_top", "border_bottom"]
def attr_value(name, shape):
    if shape == "scalar":
        return [[name + "00"]]
    if shape == "vector":
        return [[name + "0%%d" %% c for c in range(NCOL)]]
    return [[name + "%%d%%d" %% (r, c) for c in range(NCOL)] for r in range(NROW)]
def expected(name, shape, r, c):
    if shape == "scalar":
        return name + "00"
    if shape == "vector":
        return name + "0%%d" %% c
    return name + "%%d%%d" %% (r, c)
''' % (TEXT_ATTRS, TC_FIELD), timeout=T,
            body=r'''
    shape = %r
    o, hh = concrete_int(off, 0, 3), concrete_int(h, 1, 2)
    me = NS.of(TableAttributes, cell_nrow=[[1]])
    for name in ATTRS + BORDERS + ["cell_vertical_justification", "cell_justification", "cell_height", "border_width",
                                   "border_color_left", "border_color_right", "border_color_top", "border_color_bottom"]:
        setattr(me, name, attr_value(name, shape))
    rows = []
    saved = swapped((TextContent, lambda **kw: NS(kind="text", **kw)), (Border, lambda **kw: NS(kind="border", **kw)),
                    (Cell, lambda **kw: NS(kind="cell", **kw)), (Row, lambda **kw: (rows.append(kw), NS(_as_rtf=lambda: []))[1]))
    saved.__enter__()
    try:
        df = FakeFrame({"c%%d" %% j: ["t%%d%%d" %% (o + i, j) for i in range(hh)] for j in range(NCOL)})
        TableAttributes._encode(me, df, [1.0, 2.0, 3.0], row_offset=o)
    finally:
        saved.__exit__()
    if len(rows) != hh:
        return False
    for i, row in enumerate(rows):
        r = o + i
        if row["justification"] != expected("cell_justification", shape, r, 0) or row["height"] != expected("cell_height", shape, r, 0):
            return False
        cells = row["row_cells"]
        if len(cells) != NCOL:
            return False
        for j, cell in enumerate(cells):
            if cell.text.text != "t%%d%%d" %% (r, j) or cell.width != [1.0, 2.0, 3.0][j]:
                return False
            for name in ATTRS:
                if getattr(cell.text, TC_FIELD[name]) != expected(name, shape, r, j):
                    return False
            if cell.vertical_justification != expected("cell_vertical_justification", shape, r, j):
                return False
            for side in ("left", "top", "bottom") + (("right",) if j == NCOL - 1 else ()):
                b = getattr(cell, "border_" + side)
                if b.style != expected("border_" + side, shape, r, j):
                    return False
                if getattr(b, "width", None) != expected("border_width", shape, r, j):
                    return False
                if getattr(b, "color", None) != expected("border_color_" + side, shape, r, j):
                    return False
            if (cell.border_right is not None) != (j == NCOL - 1):
                return False
            if j == NCOL - 1 and cell.border_right.style != expected("border_right", shape, r, j):
                return False
    return True
''' % shape,
            funcs=["rtflite.attributes:TableAttributes._encode", "rtflite.attributes:BroadcastValue.iloc"],
            stubs=["TextContent / Border / Cell / Row -> recorders of their keyword arguments", "segment frame -> FakeFrame"],
            bounds="5x3 table; a segment of 1..2 rows starting at row 0..3 of it (row_offset symbolic); every attribute given as a %s of "
                   "distinct marker values" % shape,
            what="the cell rendered for table position (row_offset+i, j) receives, for each of the 14 text attributes, the vertical "
                 "alignment and the four border styles, the value the attribute specifies for THAT position, its own text and its own "
                 "width; row justification and height come from that row"))
    obs.append(prep_ob("O4.attribute_slicing", T))
    # O5: across page breaks, page row i carries the attributes of table row row_start + i
    obs.append(Ob(
        oid="O5.page_binding", sig="h0: int, h1: int, first_hdr: bool, shape: int, which: int", pre=["1 <= h0 <= 3", "1 <= h1 <= 2", "0 <= shape <= 3", "0 <= which <= 2"],
        header=HDR9 + r'''
from rtflite.encoding.unified_encoder import UnifiedRTFEncoder
from rtflite.pagination.processor import PageFeatureProcessor
from vf.h_paginate import run_paginate
NROW, NCOL = 5, 2
FMT = [["", "b"], ["i", ""], ["b", "i"], ["", ""], ["bi", "b"]]
SIZE = [[6 + r, 10 + r] for r in range(NROW)]
LEFT = [["single", ""], ["", "double"], ["dotted", ""], ["", ""], ["double", "single"]]
BODIES = [rtf.RTFBody(text_format="b", text_font_size=9, border_left="single"),
          rtf.RTFBody(text_format=[["", "b"]], text_font_size=[[7, 8]], border_left=[["single", ""]]),
          rtf.RTFBody(text_format=FMT, text_font_size=SIZE, border_left=LEFT),
          rtf.RTFBody(text_format=FMT[:2], text_font_size=SIZE[:2], border_left=LEFT[:2])]     # a 2-row pattern recycled down the table
def want(shape, name, r, c):
    if shape == 0:
        return {"text_format": "b", "text_font_size": 9, "border_left": "single"}[name]
    if shape == 1:
        return {"text_format": ["", "b"], "text_font_size": [7, 8], "border_left": ["single", ""]}[name][c]
    if shape == 3:
        r = r % 2
    return {"text_format": FMT, "text_font_size": SIZE, "border_left": LEFT}[name][r][c]
''', timeout=T,
        body=r'''
    H0, H1, sh = concrete_int(h0, 1, 3), concrete_int(h1, 1, 2), concrete_int(shape, 0, 3)
    body = BODIES[sh].model_copy(deep=True)
    n = H0 + H1
    full = FakeFrame({"a": ["a%d" % i for i in range(n)], "b": ["b%d" % i for i in range(n)]})
    # the pages come from the REAL strategy (symbolic choice) for a break after row H0-1, then go through the real post-processing
    pages = run_paginate(concrete_int(which, 0, 2), [1] * H0 + [2] * H1, True,
                         keys={"g": ["G"] * n, "s": ["S0"] * H0 + ["S1"] * H1}, table_attrs=body)
    if len(pages) != 2:
        return False
    UnifiedRTFEncoder._apply_data_post_processing(UnifiedRTFEncoder.__new__(UnifiedRTFEncoder), pages, full, NS(group_by=None))
    doc = NS(rtf_body=body, rtf_page=NS(border_first="double", border_last="double", page_footnote="last", page_source="last"),
             rtf_column_header=[object()] if first_hdr else [], rtf_footnote=None, rtf_source=None)
    ok = pages[0].data.to_dicts() == full.slice(0, H0).to_dicts() and pages[1].data.to_dicts() == full.slice(H0, H1).to_dicts()
    starts = [0, H0]
    for pi, page in enumerate(pages):
        attrs = PageFeatureProcessor()._apply_pagination_borders(doc, page)
        h = page.data.height
        for i in range(h):
            for c in range(NCOL):
                for name in ("text_format", "text_font_size", "border_left"):
                    got = BroadcastValue(value=getattr(attrs, name), dimension=(h, NCOL)).iloc(i, c)
                    ok = ok and got == want(sh, name, starts[pi] + i, c)
    # the page-boundary borders were written into per-page copies: the document's own body is untouched
    ref = BODIES[sh]
    for name in ("border_top", "border_bottom", "border_left", "border_right", "text_format", "text_font_size"):
        ok = ok and getattr(body, name) == getattr(ref, name)
    return ok
''',
        funcs=["rtflite.pagination.strategies.defaults:DefaultPaginationStrategy.paginate",
               "rtflite.pagination.strategies.grouping:PageByStrategy.paginate", "rtflite.pagination.strategies.grouping:SublineStrategy.paginate",
               "rtflite.encoding.unified_encoder:UnifiedRTFEncoder._apply_data_post_processing",
               "rtflite.pagination.processor:PageFeatureProcessor._apply_pagination_borders"],
        stubs=["frames -> FakeFrame / vf.minipl", "row metadata -> the page assignment under test", "PageContext / document -> namespaces "
               "(real field defaults) around a REAL RTFBody"],
        bounds="a table of 2..5 rows x 2 columns broken after a symbolic row into two pages (heights 1..3, 1..2) by the plain | page_by | "
               "subline_by strategy (symbolic); text_format, text_font_size and border_left given as scalar | "
               "per-column vector | full matrix | 2-row pattern recycled down the table (symbolic choice)",
        what="the attributes a page renders with bind page row i to the values specified for table row row_start + i: the binding does "
             "not depend on where the page break falls"))
    meta = {
        "explanation": "The binding of formatting to cells is decided on its kernels: the recycling algebra of BroadcastValue for every "
                       "value/table shape up to 4x4, the emitters (every field written; numbers kept symbolic), and "
                       "TableAttributes._encode with recording constructors - every attribute given as scalar, per-column vector and "
                       "full matrix of distinct markers, symbolic segment offset - plus attribute slicing on column removal.",
        "outside": ["page_by pages whose in-page group headings split the body into segments on pages after the first (the segment "
                    "offset is page-relative and the page attributes are re-based by O5: composed, not separately decided)",
                    "tables larger than 5x3 / 4x4"],
        "assumptions": ["recording constructors receive exactly what the real pydantic constructors would"],
    }
    return obs, meta
