"""C12 - colour and font references resolve to what the user asked for."""
from ..runner import Ob

HDRC = "from vf.h_color import *\nfrom vf.hlib import holes_reset, tpl, pick\n"
RANK_PRE = ["r0 > 0 and r1 > 0 and r2 > 0", "r0 != r1 and r1 != r2 and r0 != r2"]
F_COLOR = ["rtflite.services.color_service:ColorService.get_rtf_color_index",
           "rtflite.services.color_service:ColorService.generate_rtf_color_table",
           "rtflite.services.color_service:ColorService.collect_document_colors",
           "rtflite.services.color_service:ColorService.set_document_context", "rtflite.row:Utils._get_color_index"]
STUB_COLOR = ["657-entry colour table -> the 3 names white, red, grey50 with symbolic distinct master ranks (two may share one RGB definition)"]


def build(tier, seed):
    quick = tier == "quick"
    T = 240 if quick else 600
    obs = []
    obs.append(Ob(
        oid="O1.kernel", sig="r0: int, r1: int, r2: int, alias: bool, u0: bool, u1: bool, u2: bool, dup: bool",
        pre=RANK_PRE, header=HDRC, timeout=T,
        body=r'''
    def body():
        used = [n for n, u in zip(NAMES, (u0, u1, u2)) if u]
        listed = used + ([used[0]] if (dup and used) else []) + ["", "black"]
        svc.set_document_context(used_colors=listed)
        table = svc.generate_rtf_color_table(listed)
        idx = {n: Utils._get_color_index(n) for n in used}
        ok = indices_ok(used, table, idx)
        ok = ok and Utils._get_color_index("black") == 0 and Utils._get_color_index("") == 0
        ok = ok and (table == "" or (table.startswith("{\\colortbl;") and table.endswith("\n}")))
        svc.clear_document_context()
        return ok and svc._current_document_colors is None
    return with_tables([r0, r1, r2], alias, body)
''',
        funcs=F_COLOR, stubs=STUB_COLOR,
        bounds="3 colour names (white, red, grey50) with table contents abstracted, any distinct positive master ranks, any used subset, optional duplicate and default entries in the "
               "used list, optional RGB alias pair",
        what="for every used colour the index returned for an element is the 1-based position of an entry of the generated table "
             "that holds that colour's definition; '' and black give 0; a table exists iff a non-default colour is used"))
    obs.append(Ob(
        oid="O1.collect", sig="w0: int, w1: int, w2: int, u0: bool, u1: bool, u2: bool, nested: bool",
        pre=["0 <= w0 <= 4 and 0 <= w1 <= 4 and 0 <= w2 <= 4"], header=HDRC, timeout=T,
        body=r'''
    used = [n for n, u in zip(NAMES, (u0, u1, u2)) if u]
    where = [w for w, u in zip((w0, w1, w2), (u0, u1, u2)) if u]
    got = svc.collect_document_colors(make_doc(used, where, nested=nested))
    return sorted(got) == sorted(used)
''',
        funcs=["rtflite.services.color_service:ColorService.collect_document_colors"],
        bounds="3 colours, each placed on one of body / title / page header / footnote / column header (symbolic); column headers given flat or nested per section (symbolic)",
        what="the colours collected for the document's table are exactly the colours used on any component"))
    for path, name in ((0, "single"), (1, "multi_section"), (2, "figure")):
        obs.append(Ob(
            oid="O2.paths." + name, sig="r0: int, r1: int, r2: int, alias: bool, u0: bool, u1: bool, u2: bool, w: int",
            pre=RANK_PRE + ["0 <= w <= 3"], header=HDRC, timeout=T,
            body=r'''
    def body():
        used = [n for n, u in zip(NAMES, (u0, u1, u2)) if u]
        where = [w] * len(used)
        if %d == 2:
            where = [x if x != 0 else 1 for x in where]      # a figure document has no body
        log, table, out = run_encode(%d, used, where)
        if not log:
            return False
        for site, idx in log:
            if not indices_ok(used, table, idx):
                return False
        return True
    return with_tables([r0, r1, r2], alias, body)
''' % (path, path),
            funcs=F_COLOR + ["rtflite.encoding.unified_encoder:UnifiedRTFEncoder.encode",
                             "rtflite.encoding.unified_encoder:UnifiedRTFEncoder._encode_multi_section",
                             "rtflite.encoding.unified_encoder:UnifiedRTFEncoder._encode_figure_only"],
            stubs=STUB_COLOR + ["component encoders / body section / figure encoder -> probes that ask for the index of every used colour",
                                "pydantic model_copy -> namespace copies (multi-section)"],
            bounds="%s document path; 3 colours with symbolic ranks, used subset, all placed on body | title | page header | footnote (symbolic)" % name,
            what="on the %s path every index requested while the body, title, footnote, page header/footer or figure is encoded "
                 "refers to THAT document's colour table" % name))
    # O4: the table follows the document's CURRENT colours when the same document object is encoded again
    obs.append(Ob(
        oid="O4.reencode_after_change", sig="r0: int, r1: int, r2: int, alias: bool, w: int, first: int, second: int",
        pre=RANK_PRE + ["0 <= w <= 3", "0 <= first <= 2 and 0 <= second <= 2"], header=HDRC, timeout=T,
        body=r"""
    def body():
        used1, used2 = [pick(NAMES, first)], [pick(NAMES, second)]
        doc = make_doc(used1, [w])
        log1, table1, out1 = run_encode(0, used1, [w], doc=doc)
        # the user changes the colour on the same document object and encodes it again
        fresh = make_doc(used2, [w])
        for comp in ("rtf_body", "rtf_title", "rtf_page_header", "rtf_footnote"):
            getattr(doc, comp).text_color = getattr(fresh, comp).text_color
        log2, table2, out2 = run_encode(0, used2, [w], doc=doc)
        if not log1 or not log2:
            return False
        return all(indices_ok(used1, table1, idx) for site, idx in log1) and all(indices_ok(used2, table2, idx) for site, idx in log2)
    return with_tables([r0, r1, r2], alias, body)
""",
        funcs=F_COLOR + ["rtflite.encoding.unified_encoder:UnifiedRTFEncoder.encode"], stubs=STUB_COLOR + ["component encoders -> probes"],
        bounds="one document object encoded, one colour changed in place (any of 3 colours -> any of 3, on body | title | page header | "
               "footnote), encoded again",
        what="the second encoding's colour table and indices are those of the colours the document has THEN (nothing remembered "
             "from the first encoding)"))
    obs.append(Ob(
        oid="O3.fonts", sig="font: int, size: int", pre=["1 <= font <= 10", "1 <= size <= 200"], header=HDRC + r'''
import re
from rtflite.row import TextContent
from rtflite.rtf.syntax import RTFSyntaxGenerator
TABLE = RTFSyntaxGenerator.generate_font_table()
ENTRIES = dict((int(m.group(1)), m.group(2)) for m in re.finditer(r"\{\\f(\d+)\\[a-z]+\\fcharset\d+\\fprq2 ([^;]+);\}", TABLE))
''', templates=True, timeout=T,
        body=r'''
    holes_reset()
    out = TextContent._get_text_formatting(NS.of(TextContent, size=size, font=font, color=None, background_color=None, format=None))
    m = re.fullmatch(r"\\fs(" + tpl.NUM + r")\{\\f(" + tpl.NUM + ")", out)
    if m is None:
        return False
    fs, f = tpl.hole_value(m.group(1)), tpl.hole_value(m.group(2))
    names = Utils._font_type()["name"]
    return fs == 2 * size and f == font - 1 and len(ENTRIES) == 10 and all(ENTRIES.get(k) == names[k] for k in range(10))
''',
        funcs=["rtflite.row:TextContent._get_text_formatting", "rtflite.rtf.syntax:RTFSyntaxGenerator.generate_font_table"],
        bounds="font number 1..10, size 1..200 symbolic (rendered numbers kept symbolic by the template patch)",
        what="\\f<k> emitted for font number n has k = n-1, the font table defines \\f0..\\f9 with the names of fonts 1..10, \\fs is "
             "twice the size"))
    meta = {
        "explanation": "Colour resolution is decided on the real ColorService with its 657-entry table abstracted to opaque names "
                       "whose master ranks are symbolic distinct integers: one query covers every subset and order of real "
                       "colours of that size. The same is decided through the real encode / multi-section / figure-only paths "
                       "with probing services that ask for indices exactly where the real component encoders do.",
        "outside": ["RGB values of the shipped table file (data)", "more than 3 distinct colours per document",
                    "border colours (collected into the table but never emitted - C09)"],
        "assumptions": ["the component encoders obtain indices through Utils._get_color_index at encode time"],
    }
    return obs, meta
