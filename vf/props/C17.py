"""C17 - assemble_rtf yields one well-formed document with every input in order."""
from ..runner import Ob

HDRA = "from vf.h_asm import *\nfrom vf.hlib import pick, concrete_int\n"
F_ASM = ["rtflite.assemble:assemble_rtf"]
STUBS = ["open / os.path.exists in rtflite.assemble -> in-memory file system",
         "input files -> line sequences of grammar G (validated against real rtf_encode output each run)"]


def build(tier, seed):
    quick = tier == "quick"
    T = 240 if quick else 900
    obs = []
    # O1: two and three files
    obs.append(Ob(
        oid="O1.files2", sig="n0: int, m0: bool, n1: int, m1: bool, col1: bool, c: int, dup: bool",
        pre=["0 <= n0 <= 3 and 0 <= n1 <= 3", "0 <= c <= 6"], header=HDRA, timeout=T,
        body=r'''
    f0, t0 = make_file(0, concrete_int(n0, 0, 3), m0, False, [0, 3])
    f1, t1 = make_file(1, concrete_int(n1, 0, 3), m1, col1, [concrete_int(c, 0, 6), 1])
    files = {"f0.rtf": f0, "f1.rtf": f1}
    order = ["f0.rtf", "f0.rtf" if dup else "f1.rtf"]
    text, err, fs = run_assemble(files, order)
    if err is not None or text is None:
        return False
    exp = "".join(f0[:-1]) + "\\page\n" + (t0 if dup else t1) + "}"
    return text == exp and depth_profile_ok(text)
''',
        funcs=F_ASM, stubs=STUBS,
        bounds="2 inputs: each with 1..3 font-table lines or the font table the code under test generates, and table- or figure-style preamble; the later one with/without colour "
               "table and a symbolic body-unit class (table row, paragraph, blank+text, two-line picture group, page settings, page footer line, page header line); "
               "optionally the same file listed twice",
        what="the output is the first file without its final brace, then \\page and the later file's content after its font table, "
             "then one closing brace: one top-level group closed only at the end, every body once, in argument order"))
    for dupv in (0, 1, 2):
      obs.append(Ob(
        oid="O1.files3.dup%d" % dupv, sig="n1: int, m1: bool, col1: bool, n2: int, m2: bool, col2: bool, c: int",
        pre=["0 <= n1 <= 3 and 0 <= n2 <= 3", "0 <= c <= 6"], header=HDRA, timeout=T,
        body=("\n    dup = %d" % dupv) + r'''
    f0, t0 = make_file(0, 2, False, False, [0, 1])
    f1, t1 = make_file(1, concrete_int(n1, 0, 3), m1, col1, [3, 0])
    f2, t2 = make_file(2, concrete_int(n2, 0, 3), m2, col2, [concrete_int(c, 0, 6)])
    files = {"f0.rtf": f0, "f1.rtf": f1, "f2.rtf": f2}
    tails = {"f0.rtf": t0, "f1.rtf": t1, "f2.rtf": t2}
    order = ["f0.rtf", "f1.rtf", "f2.rtf"]
    if dup == 1:
        order[2] = "f0.rtf"           # the first input listed again as the last
    elif dup == 2:
        order[1] = "f2.rtf"           # two identical inputs next to each other
    text, err, fs = run_assemble(files, order)
    if err is not None or text is None:
        return False
    exp = "".join(f0[:-1]) + "\\page\n" + tails[order[1]] + "\\page\n" + tails[order[2]] + "}"
    return text == exp and depth_profile_ok(text) and text.count("\\page\n") == 2
''',
        funcs=F_ASM, stubs=STUBS,
        bounds="3 inputs: the two later ones with 1..3 font-table lines or the generated font table, table- or figure-style preamble, with/without colour table; "
               "duplicates: none | first listed again last | second and third identical",
        what="as O1.files2 for three inputs, including inputs listed more than once"))
    # O2: single input, empty list, missing input
    for modev, mname in ((0, "single"), (1, "empty"), (2, "missing")):
      obs.append(Ob(
        oid="O2." + mname, sig="n: int, m: bool, c0: int, col: bool, miss: int",
        pre=["0 <= n <= 3", "0 <= c0 <= 6", "0 <= miss <= 2"], header=HDRA, timeout=T,
        body=("\n    mode, c1 = %d, 1" % modev) + r'''
    lines, _t = make_file(0, concrete_int(n, 0, 3), m, col, [concrete_int(c0, 0, 6), concrete_int(c1, 0, 4)])
    other, _ = make_file(1, 2, False, False, [1])
    files = {"a.rtf": lines, "b.rtf": other, "c.rtf": other}
    if mode == 0:
        text, err, fs = run_assemble(files, ["a.rtf"])
        return err is None and text == "".join(lines)
    if mode == 1:
        text, err, fs = run_assemble(files, [])
        return err is None and text is None and fs.events == []
    order = ["a.rtf", "b.rtf", "c.rtf"]
    order[concrete_int(miss, 0, 2)] = "nope.rtf"
    text, err, fs = run_assemble(files, order)
    return err == "FileNotFoundError" and text is None and not any(e[0] == "open" and "w" in e[2] for e in fs.events)
''',
        funcs=F_ASM, stubs=STUBS,
        bounds="one file of grammar G (with/without colour table, 2 body units); empty list; 3 inputs with the missing one at a "
               "symbolic position",
        what="a single input is reproduced unchanged, an empty list writes nothing and touches no file, a missing input raises "
             "FileNotFoundError before anything is opened for writing"))
    # O4: every call reads the files as they are at that time
    obs.append(Ob(
        oid="O4.reread", sig="n1: int, m1: bool, c: int, c2: int, which: int", pre=["0 <= n1 <= 3", "0 <= c <= 6 and 0 <= c2 <= 6", "0 <= which <= 1"],
        header=HDRA, timeout=T,
        body=r"""
    f0, t0 = make_file(0, 2, False, False, [0])
    f1, t1 = make_file(1, concrete_int(n1, 0, 3), m1, False, [concrete_int(c, 0, 6)])
    text, err, fs = run_assemble({"f0.rtf": f0, "f1.rtf": f1}, ["f0.rtf", "f1.rtf"])
    if err is not None or text != "".join(f0[:-1]) + "\\page\n" + t1 + "}":
        return False
    # one of the inputs is regenerated with other content, then the same call is made again
    g0, u0 = make_file(2, 2, False, False, [1, 0]) if which == 0 else (f0, t0)
    g1, u1 = make_file(3, concrete_int(n1, 0, 3), m1, False, [concrete_int(c2, 0, 6), 1]) if which == 1 else (f1, t1)
    text2, err2, fs2 = run_assemble({"f0.rtf": g0, "f1.rtf": g1}, ["f0.rtf", "f1.rtf"])
    return err2 is None and text2 == "".join(g0[:-1]) + "\\page\n" + u1 + "}"
""",
        funcs=F_ASM, stubs=STUBS,
        bounds="two calls in one process on the same two paths; between them the first or the second file (symbolic) is replaced by "
               "another member of grammar G",
        what="the second call assembles the files' current content: nothing read by an earlier call is reused"))
    # O5: inputs larger than any read buffer
    obs.append(Ob(
        oid="O5.large_input", sig="pos: int, n1: int, m1: bool", pre=["0 <= pos <= 2", "0 <= n1 <= 3"], header=HDRA, timeout=T,
        body=r"""
    big, tbig = make_file(9, concrete_int(n1, 0, 3), m1, False, [0, 7, 1])       # > 64 KiB
    small, tsmall = make_file(1, 2, False, False, [0])
    other, tother = make_file(2, 1, False, False, [1])
    p = concrete_int(pos, 0, 2)
    files = {"a.rtf": small, "b.rtf": other, "big.rtf": big}
    if p == 0:
        text, err, fs = run_assemble(files, ["big.rtf"])
        return err is None and text == "".join(big)
    order = ["a.rtf", "big.rtf", "b.rtf"] if p == 1 else ["a.rtf", "b.rtf", "big.rtf"]
    tails = {"a.rtf": tsmall, "b.rtf": tother, "big.rtf": tbig}
    text, err, fs = run_assemble(files, order)
    exp = "".join(small[:-1]) + "\\page\n" + tails[order[1]] + "\\page\n" + tails[order[2]] + "}"
    return err is None and text == exp and depth_profile_ok(text)
""",
        funcs=F_ASM, stubs=STUBS + ["readlines(hint) of the in-memory files follows io semantics (stops once the hint is reached)"],
        bounds="one input of about 73 KiB (a picture group of 900 payload lines) alone, in the middle or last among three",
        what="an input is read completely whatever its size: nothing after the first 64 KiB (or any other buffer size) is lost"))
    obs.append(Ob(oid="O3.grammar", kind="py", target="vf.api_c17:grammar", kwargs={"tier": tier}, timeout=T,
                  funcs=["rtflite.encode:RTFDocument.rtf_encode"],
                  bounds="real rtf_encode() outputs: table (1 and 3 pages), landscape, page header/footer, coloured, multi-section, figure",
                  what="assumption validation: real rtflite output has the line structure of grammar G (first line, font-table lines "
                       "containing 'fcharset', a lone '}' line right after them, final line '}')"))
    meta = {
        "explanation": "assemble_rtf is executed symbolically over an in-memory file system whose files are arbitrary members of a "
                       "line-class grammar of rtflite output (symbolic preamble length, merged figure-style preamble, body unit "
                       "classes incl. multi-line groups, duplicate inputs): the written text must be exactly the concatenation the "
                       "statement describes and a single well-formed group.",
        "outside": ["pages as read back by an RTF reader (concrete witnesses)", "colour tables of later inputs, which are copied "
                    "into the body", "more than 3 inputs / 3 body units"],
        "assumptions": ["inputs are files written by rtflite (grammar G)"],
    }
    return obs, meta


def after(run, tier, seed):
    from ..witness import run_witnesses
    run_witnesses(run, "vf.api_c17:witnesses", {"tier": tier, "seed": seed})
