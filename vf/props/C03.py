"""C03 - no page exceeds the nrow row budget."""
from ..runner import Ob
from ._pag import glue_ob, F_ASSIGN, F_META, HDR, assign_ob, partitions

HDR_RES = HDR + r'''
import copy
from rtflite.services.document_service import RTFDocumentService
PLACE = ["first", "last", "all"]

from vf.fakes import Stub
class Hdr(Stub):
    """deep-copyable stand-in for an RTFColumnHeader (text, border_top, col_rel_width); unknown attributes raise
    Unsupported so that a refactoring which reads more of the header makes the obligation inconclusive, not violated"""
    def __init__(self, text):
        Stub.__init__(self, text=text, border_top=[[""]], col_rel_width=None)
    def __deepcopy__(self, memo):
        h = Hdr(self.text)
        h.__dict__.update({k: (list(v) if isinstance(v, list) else v) for k, v in self.__dict__.items()})
        return h

class _FrameStub(Stub):
    """stand-in for pl.DataFrame in the auto-header branch: isinstance target and row-oriented constructor"""
    def __init__(self, rows=None, schema=None, orient=None):
        Stub.__init__(self, rows=rows, shape=(len(rows), len(rows[0]) if rows else 0))

class PageData(_FrameStub):
    """page.data stand-in: the auto-header branch only needs .columns of a frame-like object"""
    def __init__(self):
        Stub.__init__(self, columns=["a", "b"], shape=(1, 2))

def reservation_vs_render(h1, h2, as_colheader, needs_header, fn, src, pf, ps, subline, first, last, pageby_header=True):
    """returns (reserved, emitted repeated table rows) for the SAME document namespace"""
    import rtflite.encoding.renderer as rmod
    def mk(kind):
        return None if kind == 0 else Hdr(["A", "B"] if kind == 1 else None)
    headers = [h for h in (mk(h1), mk(h2)) if h is not None]
    doc = NS(rtf_title=None, rtf_subline=None,
             rtf_page=NS(page_title="all", page_footnote=PLACE[pf], page_source=PLACE[ps], col_width=6.0,
                         border_first="double", border_last="double"),
             rtf_figure=None, rtf_column_header=headers,
             rtf_footnote=None if fn == 0 else NS(text="f", as_table=(fn == 1)),
             rtf_source=None if src == 0 else NS(text="s", as_table=(src == 1)), df=None,
             rtf_body=NS(new_page=False, pageby_row="column", page_by=None, subline_by=["s"] if subline else None,
                         as_colheader=as_colheader, col_rel_width=None, pageby_header=pageby_header))
    reserved = RTFDocumentService.calculate_additional_rows_per_page(NS.of(RTFDocumentService), doc)
    r = token_renderer()
    r._render_body = lambda d, p: [("ROW", 0, 0)]
    page = NS(is_first_page=first, is_last_page=last, subline_header={"group_values": {"s": "G"}} if subline else None,
              needs_header=needs_header, pageby_header_info=None, group_boundaries=None, component_borders={},
              page_number=1, data=PageData(), final_body_attrs=None, table_attrs=None, col_widths=[1.0])
    # the auto-header branch tests isinstance(page.data, pl.DataFrame) and builds a polars frame: stand in for both
    import polars as _real_polars
    saved = swapped((_real_polars, NS(DataFrame=_FrameStub)))
    saved.__enter__()
    try:
        out = PageRenderer.render(r, doc, page)
    finally:
        saved.__exit__()
    emitted = 0
    for x in out:
        if isinstance(x, tuple) and x[0] == "HROW":
            emitted += 1
        elif isinstance(x, tuple) and x[0] in ("FOOTNOTE", "SOURCE") and x[1] == "table":
            emitted += 1
        elif isinstance(x, str) and x.startswith("{\\pard") and subline:
            emitted += 1
    return reserved, emitted

'''

HDR_FONT = HDR + r'''
import rtflite as rtf
from vf.hlib import pick
FONTS = [1, 4, 9]
SIZES = [9, 12, 18]
'''


def build(tier, seed):
    quick = tier == "quick"
    T = 240 if quick else 900
    obs = []
    what = "every page holding >= 2 rows has sum(total_rows) <= max(1, nrow - reserved)"
    for n in (1, 2, 3):
        obs.append(assign_ob("O1.n%d" % n, n, "budget_ok(pages, H, nrow, add, C)", what, T))
    for i, fx in enumerate(partitions(4, 1)):
        obs.append(assign_ob("O1.n4.p%d" % i, 4, "budget_ok(pages, H, nrow, add, C)", what, T, fixed=fx))
    if not quick:
        for i, fx in enumerate(partitions(5, 2)):
            obs.append(assign_ob("O1.n5.p%d" % i, 5, "budget_ok(pages, H, nrow, add, C)", what, T, fixed=fx))
        for i, fx in enumerate(partitions(6, 3)):
            obs.append(assign_ob("O1.n6.p%d" % i, 6, "budget_ok(pages, H, nrow, add, C)", what, T, fixed=fx))
    # O2: reservation adequacy, partitioned on the two header kinds (0 absent, 1 explicit text, 2 auto text=None)
    for h1 in (0, 1, 2):
        for h2 in (0, 1, 2):
            if h1 == 0 and h2 != 0:
                continue
            obs.append(Ob(
                oid="O2.reserve.h%d%d" % (h1, h2),
                sig="as_colheader: bool, needs_header: bool, fn: int, src: int, pf: int, ps: int, subline: bool, first: bool, last: bool, pbh: bool",
                pre=["0 <= fn <= 2", "0 <= src <= 2", "0 <= pf <= 2", "0 <= ps <= 2",
                     # the strategies show column headers on a page iff pageby_header or it is the first page
                     "needs_header == (pbh or first)",
                     # a header without text and as_colheader=False is the C01 TypeError finding, not a budget matter
                     "as_colheader or %s" % ("True" if 2 not in (h1, h2) else "False")],
                header=HDR_RES, timeout=T,
                body="    reserved, emitted = reservation_vs_render(%d, %d, as_colheader, needs_header, fn, src, pf, ps, subline, first, last, pbh)\n"
                     "    return reserved >= emitted\n" % (h1, h2),
                funcs=["rtflite.services.document_service:RTFDocumentService.calculate_additional_rows_per_page",
                       "rtflite.encoding.renderer:PageRenderer.render", "rtflite.encoding.renderer:PageRenderer._render_column_headers"],
                stubs=["encoding/figure/document services -> role-token services", "_render_body -> one row token",
                       "RTFColumnHeader -> deep-copyable object with text/border_top", "polars frame of the auto-header branch -> stub"],
                bounds="header rows (%s, %s) of kinds absent/explicit/auto; footnote, source in absent|table|paragraph; placements, "
                       "subline_by, first/last page, pageby_header (headers shown iff pageby_header or first page), as_colheader symbolic" % (h1, h2),
                what="rows reserved by calculate_additional_rows_per_page >= repeated table rows (column header rows, table "
                     "footnote/source rows, subline heading) that render() emits on the page, same document"))
    # O3: group headings incl. continuation headings stay within the budget
    for n in ((2, 3) if quick else (2, 3, 4)):
        for hv in ([(1,) * n, (2,) + (1,) * (n - 1)] if quick else [(1,) * n, (2,) + (1,) * (n - 1), (1,) * (n - 1) + (2,)]):
            ks = ", ".join("k%d: str" % i for i in range(n))
            obs.append(Ob(
                oid="O3.headings.n%d.h%s" % (n, "".join(map(str, hv))),
                sig=ks + ", nrow: int, add: int, new_page: bool, first_row: bool",
                pre=["len(k%d) == 1" % i for i in range(n)] + ["nrow >= 1", "add >= 0"],
                header=HDR, timeout=T,
                body=r'''
    K = [%s]
    H = %r
    rows, pages = chain({"g": K}, ["g"], H, nrow, add, new_page, "first_row" if first_row else "column")
    avail = nrow - add
    if avail < 1:
        avail = 1
    for toks in pages:
        data = [t for t in toks if t[0] == "ROW"]
        spans = [t for t in toks if t[0] == "SPAN"]
        lines = len(spans)
        for t in data:
            lines += H[int(t[1][1:])]
        if len(data) > 1 and lines > avail:
            return False
    return True
''' % (", ".join("k%d" % i for i in range(n)), list(hv)),
                funcs=F_META + ["rtflite.pagination.strategies.grouping:PageByStrategy._get_group_headers",
                                "rtflite.pagination.strategies.grouping:PageByStrategy._detect_group_boundaries",
                                "rtflite.encoding.renderer:PageRenderer.render", "rtflite.encoding.renderer:PageRenderer._render_body"],
                stubs=["data frame -> FakeFrame", "get_string_width -> per-row constant giving the fixed line heights",
                       "paginate() glue (unique pages, [min,max] slice) mirrored in the harness", "services -> role tokens"],
                bounds="%d rows with line heights %s, one page_by level with symbolic one-character keys, nrow/reserved unbounded, "
                       "new_page and pageby_row symbolic" % (n, list(hv)),
                what="per page: group headings emitted at the top and at in-page boundaries + data lines <= available rows "
                     "(single-row pages excepted)"))
    # O3b: two nested page_by levels (one spanning row is rendered per level)
    for n in ((2, 3) if quick else (2, 3, 4)):
        ks = ", ".join("k%d: str, m%d: str" % (i, i) for i in range(n))
        obs.append(Ob(
            oid="O3.headings2.n%d" % n, sig=ks + ", nrow: int, add: int, new_page: bool, first_row: bool",
            pre=["len(k%d) == 1 and len(m%d) == 1" % (i, i) for i in range(n)] + ["nrow >= 1", "add >= 0"], header=HDR, timeout=T,
            body=r'''
    K = [%s]
    M = [%s]
    H = [1] * %d
    rows, pages = chain({"g": K, "h": M}, ["g", "h"], H, nrow, add, new_page, "first_row" if first_row else "column")
    avail = nrow - add
    if avail < 1:
        avail = 1
    for toks in pages:
        data = [t for t in toks if t[0] == "ROW"]
        spans = [t for t in toks if t[0] == "SPAN"]
        if len(data) > 1 and len(spans) + len(data) > avail:
            return False
    return True
''' % (", ".join("k%d" % i for i in range(n)), ", ".join("m%d" % i for i in range(n)), n),
            funcs=F_META + ["rtflite.pagination.strategies.grouping:PageByStrategy._get_group_headers",
                            "rtflite.pagination.strategies.grouping:PageByStrategy._detect_group_boundaries",
                            "rtflite.encoding.renderer:PageRenderer.render", "rtflite.encoding.renderer:PageRenderer._render_body"],
            stubs=["data frame -> FakeFrame", "get_string_width -> constant", "paginate() glue mirrored in the harness", "services -> role tokens"],
            bounds="%d one-line rows, TWO nested page_by levels with symbolic one-character keys, nrow/reserved unbounded, new_page and "
                   "pageby_row symbolic" % n,
            what="with nested page_by every level's heading row (at the top of a page and at in-page boundaries) is inside the budget"))
    # O4: the line estimate uses each cell's own font and size (outcome based: the stub's width grows with the size it is
    # asked for, so a wrong font/size - or a memo that ignores them - gives a wrong line count)
    obs.append(Ob(
        oid="O4.font_of_estimate", sig="f0: int, f1: int, z0: int, z1: int, perrow: bool, same: bool",
        pre=["0 <= f0 <= 2 and 0 <= f1 <= 2 and 0 <= z0 <= 2 and 0 <= z1 <= 2"],
        header=HDR_FONT, timeout=T,
        body=r'''
    fonts = [pick(FONTS, f0), pick(FONTS, f1)]
    sizes = [pick(SIZES, z0), pick(SIZES, z1)]
    if perrow:
        attrs = NS(text_font=[[fonts[0]], [fonts[1]]], text_font_size=[[sizes[0]], [sizes[1]]], cell_height=[[0.15]])
    else:
        attrs = NS(text_font=[[fonts[0]]], text_font_size=[[sizes[0]]], cell_height=[[0.15]])
        fonts[1], sizes[1] = fonts[0], sizes[0]
    texts = ["r0", "r0" if same else "r1"]
    def width(text, font, size):
        # 0.1 in per point of size, +0.05 for the sans and +0.02 for the mono font: lines = int(width) + 1 in a 1-inch column
        return 0.1 * size + {1: 0.0, 4: 0.05, 9: 0.02}.get(font, 0.0)
    rows = metadata({"v": texts}, [1.0], None, None, None, 10, 0, False, width, table_attrs=attrs)
    ok = len(rows) == 2
    for i in range(2):
        ok = ok and rows[i]["data_rows"] == int(width(texts[i], fonts[i], sizes[i]) / 1.0) + 1
    return ok
''',
        funcs=F_META, stubs=["get_string_width -> width that grows with the font size it is asked for", "data frame -> FakeFrame",
                             "table attrs -> namespace"],
        bounds="2 rows x 1 column with equal or different texts; fonts in {1,4,9}, sizes in {9,12,18}; scalar or per-row attribute shape",
        what="each row is counted with the lines its cell needs at THAT row's own text_font / text_font_size (also when the same text "
             "occurs in another row with another font)"))
    obs.append(glue_ob("O5.section_glue", T))
    meta = {
        "explanation": "The budget is decided on the real kernels: _assign_pages with unbounded symbolic heights/nrow/reserved rows "
                       "(every multi-row page fits), reservation adequacy by running calculate_additional_rows_per_page and the "
                       "real PageRenderer.render on the same symbolic document configuration and comparing reserved vs emitted "
                       "repeated rows, group headings by chaining the real metadata -> assign -> header/boundary -> render "
                       "functions on symbolic group keys, and the line estimate's font lookup with a recording width stub.",
        "outside": ["FreeType glyph widths (C20)", "wrapping of footnote/source text inside its single reserved row",
                    "row counts beyond the stated shapes"],
        "assumptions": ["a heading row occupies one line (width stub 0.5 in a 1-inch column)"],
    }
    return obs, meta
