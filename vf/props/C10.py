"""C10 - every Unicode character reaches the reader intact."""
from ..runner import Ob

CP_PRE = [
    "32 <= cp <= 0x10FFFF",
    "not (0xD800 <= cp <= 0xDFFF)",
    "not (0x7F <= cp <= 0x9F)",
    "cp not in (92, 123, 125)",
]
# with conversion on, the five trigger characters are excluded (C11 covers them)
CONV_PRE = ["(not conv) or cp not in (94, 95, 62, 60, 61)"]

DECOMPOSABLE = (0xB2, 0xB3, 0xB9, 0xBC, 0xBD, 0xBE, 0xAA, 0xBA, 0x2070, 0x2074, 0x2079, 0x2080, 0x2089, 0x2126, 0x212A, 0x212B,
                0x037E, 0x1FEF, 0x2460, 0x2468, 0xFB01, 0xFB03, 0xFF11, 0xFF19, 0xFF21, 0x1D7CE, 0x1D7D7, 0x1D400, 0xF900,
                0xFA0E, 0x2F800, 0x0301, 0x0308, 0x0303, 0x0327, 0x3099, 0x1100, 0x2160, 0x00A0, 0x2002)

HDR = r'''
from vf.hlib import NS, holes_reset, decodes_to, tpl
import rtflite.row as row
import rtflite.attributes as attributes
from rtflite.row import TextContent
from rtflite.encoding.renderer import PageRenderer
from vf.api_c10 import api_position
'''

# --- pydantic boundary: TextContent(...) validates in Rust; model_construct keeps the symbolic str.
HDR_TC = HDR + r'''
_RealTC = row.TextContent
def _TC(**kw):
    return _RealTC.model_construct(**kw)
def with_tc(fn):
    """Swap the name TextContent in every loaded rtflite module for a non-validating constructor."""
    import sys
    saved = []
    for name, m in list(sys.modules.items()):
        if name.startswith("rtflite") and getattr(m, "TextContent", None) is _RealTC:
            saved.append(m)
            m.TextContent = _TC
    try:
        return fn()
    finally:
        for m in saved:
            m.TextContent = _RealTC
'''


def build(tier, seed):
    obs = []
    T = 180 if tier == "quick" else 600
    # O1: escape kernel, one symbolic code point
    obs.append(Ob(
        oid="O1.kernel", sig="cp: int, conv: bool", pre=CP_PRE + CONV_PRE, templates=True, timeout=T,
        header=HDR + "def api(cp, conv):\n    return api_position('cell', cp, conv, 'mid')\n", api=True,
        body=r'''
    holes_reset()
    out = TextContent._convert_special_chars(NS.of(TextContent, text=chr(cp), convert=conv))
    return decodes_to(out, [cp])
''',
        funcs=["rtflite.row:TextContent._convert_special_chars"],
        bounds="one symbolic code point over all Unicode scalar values except C0/C1 controls and \\ { } "
               "(and ^ _ < > = when convert is on); convert symbolic",
        what="escape layer output is 7-bit ASCII and decodes (\\ucN/\\uN signed 16 bit, surrogate pairs, "
             "exact fallback count) to the input character",
    ))
    # O1b: code points with canonical/compatibility decompositions.  On the unchanged kernel this is confirmed
    # symbolically like O1; if the code under test routes characters through a C-level Unicode table (unicodedata),
    # CrossHair realises the character and this small set is enumerated by the solver value by value.
    for tag, body_text, exp in (("single", "chr(cp)", "[cp]"), ("mid", "'a' + chr(cp) + 'b'", "[97, cp, 98]"),
                                ("after_base", "'e' + chr(cp)", "[101, cp]")):
        obs.append(Ob(
            oid="O1b.decomposable." + tag, sig="cp: int, conv: bool", pre=["cp in %r" % (DECOMPOSABLE,)], templates=True, timeout=T,
            header=HDR + "def api(cp, conv):\n    return api_position('cell', cp, conv, 'mid')\n", api=True,
            body=r'''
    holes_reset()
    out = TextContent._convert_special_chars(NS.of(TextContent, text=%s, convert=conv))
    return decodes_to(out, %s)
''' % (body_text, exp),
            funcs=["rtflite.row:TextContent._convert_special_chars", "rtflite.text_conversion.converter:TextConverter.convert_latex_to_unicode"],
            bounds="cp in a fixed set of %d code points that have canonical or compatibility decompositions / compose with a "
                   "preceding base letter (superscripts, fractions, Angstrom/Ohm/Kelvin signs, ligatures, full-width and "
                   "mathematical digits, CJK compatibility ideographs, combining marks); text %s" % (len(DECOMPOSABLE), body_text),
            what="characters that Unicode normalisation would alter are still decoded as themselves",
        ))
    # O2: boundary positions in a three-character text
    for pos, tmpl, exp in (("start", "chr(cp) + 'ab'", "[cp, 97, 98]"), ("mid", "'a' + chr(cp) + 'b'", "[97, cp, 98]"),
                           ("end", "'ab' + chr(cp)", "[97, 98, cp]")):
        obs.append(Ob(
            oid="O2." + pos, sig="cp: int, conv: bool", pre=CP_PRE + CONV_PRE, templates=True, timeout=T,
            header=HDR + "def api(cp, conv):\n    return api_position('cell', cp, conv, %r)\n" % pos, api=True,
            body=r'''
    holes_reset()
    out = TextContent._convert_special_chars(NS.of(TextContent, text=%s, convert=conv))
    return decodes_to(out, %s)
''' % (tmpl, exp),
            funcs=["rtflite.row:TextContent._convert_special_chars"],
            bounds="symbolic code point at the %s of a 3-character text" % pos,
            what="boundary clause: character at the %s of the text is decoded intact" % pos,
        ))
    # O2b: two independent symbolic code points in one text (adjacent escapes, surrogate pairs next to each other)
    obs.append(Ob(
        oid="O2b.two_characters", sig="cp: int, cq: int, conv: bool",
        pre=CP_PRE + CONV_PRE + [p.replace("cp", "cq") for p in CP_PRE + CONV_PRE] + ["(not conv) or not (cp in (62, 60) and cq == 61)"],
        templates=True, timeout=T, header=HDR,
        body=r'''
    holes_reset()
    out = TextContent._convert_special_chars(NS.of(TextContent, text=chr(cp) + chr(cq), convert=conv))
    return decodes_to(out, [cp, cq])
''',
        funcs=["rtflite.row:TextContent._convert_special_chars"],
        bounds="a text of two independent symbolic code points (each over all scalar values as in O1)",
        what="two adjacent characters of any classes (ASCII, BMP, astral) are both read back intact, in order"))
    # O3: subline_by heading path
    obs.append(Ob(
        oid="O3.subline_heading", sig="cp: int", pre=CP_PRE, templates=True, timeout=T,
        header=HDR_TC + "def api(cp):\n    return api_position('subline_by', cp, False, 'mid')\n", api=True,
        stubs=["TextContent(...) -> model_construct"],
        body=r'''
    holes_reset()
    r = PageRenderer.__new__(PageRenderer)
    out = with_tc(lambda: r._generate_subline_header({"group_values": {"g": "a" + chr(cp) + "b"}}))
    # {\pard ... {\f0 TEXT}\par}
    i = out.index("{\\f0 ")
    j = out.rindex("}\\par}")
    return decodes_to(out[i + 5:j], [97, cp, 98])
''',
        funcs=["rtflite.encoding.renderer:PageRenderer._generate_subline_header",
               "rtflite.encoding.renderer:PageRenderer._format_group_header"],
        bounds="group value 'a'+chr(cp)+'b', cp symbolic over all scalar values as in O1",
        what="subline_by heading paragraph carries the group value in reader-decodable form",
    ))
    # O4: title / subline / page header / footer ('line') and paragraph footnote/source ('paragraph')
    for meth in ("line", "paragraph"):
        obs.append(Ob(
            oid="O4.encode_text_" + meth, sig="cp: int, conv: bool", pre=CP_PRE + CONV_PRE, templates=True, timeout=T,
            header=HDR_TC + "def api(cp, conv):\n    return api_position(%r, cp, conv, 'mid')\n" % (
                "title" if meth == "line" else "footnote_par"), api=True,
            body=r'''
    holes_reset()
    me = NS.of(attributes.TextAttributes, text_font=[1], text_font_size=[9], text_format=None, text_color=None, text_background_color=None,
            text_justification=["l"], text_indent_first=[0], text_indent_left=[0], text_indent_right=[0],
            text_space=[1], text_space_before=[15], text_space_after=[15], text_convert=[conv],
            text_hyphenation=[True])
    out = with_tc(lambda: attributes.TextAttributes._encode_text(me, ["a" + chr(cp) + "b"], %r))
    if isinstance(out, list):
        out = out[0]
    i = out.index("{\\f0 ")
    j = out.index("}", i)
    return decodes_to(out[i + 5:j], [97, cp, 98])
''' % meth,
            funcs=["rtflite.attributes:TextAttributes._encode_text", "rtflite.row:TextContent._as_rtf",
                   "rtflite.row:TextContent._convert_special_chars"],
            stubs=["TextContent(...) -> TextContent.model_construct(...) (pydantic-core validation of str/int "
                   "fields assumed to pass values through unchanged)"],
            bounds="one text line 'a'+chr(cp)+'b', method=%s" % meth,
            what="title/subline/page header/footer (line) and paragraph footnote/source text path",
        ))
    # O5: table cell path (body cells, column headers, table footnote/source)
    obs.append(Ob(
        oid="O5.cell_encode", sig="cp: int, conv: bool", pre=CP_PRE + CONV_PRE, templates=True, timeout=T,
        header=HDR_TC + r'''
from vf.fakes import FakeFrame
import rtflite as rtf
BODY = rtf.RTFBody()
def api(cp, conv):
    return api_position('cell', cp, conv, 'mid')
''', api=True,
        body=r'''
    holes_reset()
    b = BODY.model_copy()
    b.text_convert = [[conv]]
    df = FakeFrame({"c": ["a" + chr(cp) + "b"]})
    out = with_tc(lambda: attributes.TableAttributes._encode(b, df, [3.0]))
    cell = [x for x in out if "\\cell" in x and "\\pard" in x][0]
    i = cell.index("{\\f0 ")
    j = cell.index("}", i)
    return decodes_to(cell[i + 5:j], [97, cp, 98])
''',
        funcs=["rtflite.attributes:TableAttributes._encode", "rtflite.row:Row._as_rtf",
               "rtflite.row:TextContent._as_rtf", "rtflite.row:TextContent._convert_special_chars"],
        stubs=["polars frame -> FakeFrame (shape, row(i))", "TextContent(...) -> model_construct"],
        bounds="1x1 table whose cell is 'a'+chr(cp)+'b'",
        what="table cell text path (body, column header, table-rendered footnote/source)",
    ))
    # O6: page_by spanning heading
    obs.append(Ob(
        oid="O6.spanning_row", sig="cp: int", pre=CP_PRE, templates=True, timeout=T,
        header=HDR_TC + r'''
from rtflite.services.encoding_service import RTFEncodingService
SVC = RTFEncodingService()
def api(cp):
    return api_position('page_by', cp, False, 'mid')
''', api=True,
        body=r'''
    holes_reset()
    out = with_tc(lambda: SVC.encode_spanning_row(text="a" + chr(cp) + "b", page_width=6.0))
    cell = [x for x in out if "\\cell" in x and "\\pard" in x][0]
    i = cell.index("{\\f")
    i = cell.index(" ", i)
    j = cell.index("}", i)
    return decodes_to(cell[i + 1:j], [97, cp, 98])
''',
        funcs=["rtflite.services.encoding_service:RTFEncodingService.encode_spanning_row"],
        stubs=["TextContent(...) -> model_construct"],
        bounds="heading text 'a'+chr(cp)+'b'",
        what="page_by spanning heading text path",
    ))
    # O7: construction-time text handling of footnote/source (entries joined by \line, nothing else touched)
    obs.append(Ob(
        oid="O7.construct_text", sig="cp: int, two: bool", pre=CP_PRE, timeout=T,
        header=HDR + "from rtflite.input import RTFTableTextComponent\n",
        body=r"""
    entry = "a" + chr(cp) + "b"
    me = NS.of(RTFTableTextComponent, text=[entry, "z"] if two else [entry])
    RTFTableTextComponent._process_text_conversion(me)
    return me.text == (entry + chr(92) + "line z" if two else entry)
""",
        funcs=["rtflite.input:RTFTableTextComponent._process_text_conversion"],
        bounds="one or two text entries, the first 'a'+chr(cp)+'b' with a symbolic code point",
        what="footnote/source text given as a list is joined with \\line between the entries; every character inside an entry - "
             "Unicode line and paragraph separators included - is kept as it is"))
    # O8: a text that consists of the character alone (no surrounding letters), through the complete text emitter
    obs.append(Ob(
        oid="O8.whole_text", sig="cp: int, conv: bool, meth: int", pre=CP_PRE + CONV_PRE + ["0 <= meth <= 2"], templates=True, timeout=T,
        header=HDR, stubs=["TextContent -> model_construct (no pydantic validation)"],
        body=r"""
    holes_reset()
    tc = TextContent.model_construct(text=chr(cp), font=1, size=9, format=None, color=None, background_color=None, justification="l",
                                     indent_first=0, indent_left=0, indent_right=0, space=1, space_before=15, space_after=15,
                                     convert=conv, hyphenation=True)
    out = TextContent._as_rtf(tc, method=("plain" if meth == 0 else ("paragraph" if meth == 1 else "cell")))
    i = out.index("{\\f0 ")
    j = out.index("}", i)
    return decodes_to(out[i + 5:j], [cp])
""",
        funcs=["rtflite.row:TextContent._as_rtf", "rtflite.row:TextContent._convert_special_chars"],
        bounds="the whole text is ONE symbolic code point (as in O1), emitted by _as_rtf as plain run | paragraph | cell",
        what="a text consisting of a single character - digits of any script included - is read back intact from every emitter form"))
    # boundary twins: the same emitters with cp chosen (symbolically) among the arithmetic boundaries of the escape rule.  They
    # stay decidable when a change routes a position through code CrossHair can only follow with a realised character
    # (bytes codecs, C helpers), where the one-symbolic-code-point obligation above degrades to INCONCLUSIVE.
    import copy
    import dataclasses
    BOUNDARY = [0x20, 0x7E, 0xA0, 0xAD, 0xFF, 0x100, 0x663, 0x7FF, 0x800, 0x200D, 0x2028, 0x2029, 0x3000, 0x7FFF, 0x8000, 0x8001, 0xD7FF,
                0xE000, 0xFF11, 0xFFFD, 0xFFFF, 0x10000, 0x10001, 0x103FF, 0x10400, 0x1D7CE, 0x1F600, 0x10FFFF]
    for ob in list(obs):
        if ob.oid in ("O3.subline_heading", "O4.encode_text_line", "O4.encode_text_paragraph", "O5.cell_encode", "O6.spanning_row", "O7.construct_text", "O8.whole_text"):
            twin = dataclasses.replace(ob) if dataclasses.is_dataclass(ob) else copy.copy(ob)
            twin.oid = ob.oid + ".boundaries"
            twin.sig = ob.sig.replace("cp: int", "k: int")
            twin.pre = ["0 <= k < %d" % len(BOUNDARY)]
            twin.header = ob.header + "\nfrom vf.hlib import pick as _pick\nBOUNDARY = %r\n" % (BOUNDARY,)
            twin.body = "\n    cp = _pick(BOUNDARY, k)" + ob.body
            twin.api = False
            twin.bounds = ob.bounds + ("; cp chosen by the solver among %d boundary code points of the escape arithmetic (ASCII/Latin-1/BMP "
                                       "edges, soft hyphen / ZWJ / no-break and ideographic space / U+2028/9, non-ASCII digits of three "
                                       "scripts, 0x7FFF/0x8000/0x8001, surrogate neighbours, 0xFFFF/0x10000, astral edges)" % len(BOUNDARY))
            obs.append(twin)
    meta = {
        "explanation": "CrossHair (z3) executes the real escape kernel and the real emitters that wrap it with ONE "
                       "SYMBOLIC CODE POINT cp ranging over every Unicode scalar value (C0/C1 and the RTF "
                       "metacharacters excluded); numbers rendered into the output stay symbolic (symbolic "
                       "templates) and an RTF-rules decoder written in the harness must read back exactly cp on "
                       "every path. 'Confirmed over all paths' therefore covers all 1.1M code points per query; a "
                       "counterexample is replayed on the plain interpreter and through RTFDocument.write_rtf + an "
                       "independent RTF reader before it is reported.",
        "outside": ["which emitter each component kind uses is validated by the API replays/witnesses, not decided",
                    "strings longer than 3 characters (the kernel is character-wise; boundary clause covered by O2)",
                    "C0/C1 control characters and raw \\ { } in text"],
        "assumptions": ["RTF reader semantics: \\ucN sets the fallback count, \\uN is a signed 16-bit UTF-16 code unit "
                        "followed by N fallback characters, surrogate pairs combine, raw bytes >= 0x80 are decoded in the "
                        "ANSI code page (so non-ASCII raw characters in a UTF-8 file are NOT read back intact)"],
    }
    return obs, meta


def after(run, tier, seed):
    """Path witnesses: one character per class per text-bearing position through the public API."""
    from ..witness import run_witnesses
    run_witnesses(run, "vf.api_c10:witnesses", {"tier": tier, "seed": seed})
