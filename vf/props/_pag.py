"""Shared obligation builders for the _assign_pages / calculate_row_metadata family (C02, C03, C04, C05)."""
import itertools

from ..runner import Ob

HDR = "from vf.h_pag import *\nfrom vf.hlib import NS\n"
F_ASSIGN = ["rtflite.pagination.core:PageBreakCalculator._assign_pages"]
F_META = ["rtflite.pagination.core:PageBreakCalculator.calculate_row_metadata",
          "rtflite.pagination.core:PageBreakCalculator._calculate_header_rows"] + F_ASSIGN


def assign_ob(oid, n, oracle, what, timeout, fixed=None, extra_body=""):
    """Obligation over the real _assign_pages with n rows.  heights / nrow / add are UNBOUNDED ints
    (h >= 1, nrow >= 1, add >= 0); flags symbolic unless fixed."""
    fixed = fixed or {}
    names = (["h%d" % i for i in range(n)] + ["c%d" % i for i in range(1, n)] + ["s%d" % i for i in range(n)]
             + ["g%d" % i for i in range(n)] + ["nrow", "add", "new_page"])
    types = dict([("h%d" % i, "int") for i in range(n)] + [("c%d" % i, "int") for i in range(n)]
                 + [("s%d" % i, "bool") for i in range(n)]
                 + [("g%d" % i, "bool") for i in range(n)] + [("nrow", "int"), ("add", "int"), ("new_page", "bool")])
    sig = ", ".join("%s: %s" % (a, types[a]) for a in names if a not in fixed)
    pre = ["h%d >= 1" % i for i in range(n)] + ["c%d >= 0" % i for i in range(1, n)] + ["nrow >= 1", "add >= 0"]
    consts = "".join("    %s = %r\n" % (k, v) for k, v in fixed.items())
    body = consts + (
        "    H = [%s]\n    S = [%s]\n    G = [%s]\n    C = [%s]\n" % (
            ", ".join("h%d" % i for i in range(n)), ", ".join("s%d" % i for i in range(n)),
            ", ".join("g%d" % i for i in range(n)), ", ".join(["0"] + ["c%d" % i for i in range(1, n)]))
        + "    pages = assign(H, S, G, nrow, add, new_page, C)\n" + extra_body + "    return " + oracle + "\n")
    part = (" partition " + ",".join("%s=%s" % kv for kv in fixed.items())) if fixed else ""
    return Ob(oid=oid, sig=sig, pre=pre, body=body, header=HDR, timeout=timeout, funcs=F_ASSIGN,
              stubs=["metadata frame -> MetaFrame (height, to_dicts()); pl.DataFrame(rows) -> recording object"],
              bounds="n=%d rows; heights>=1, continuation-heading rows>=0, nrow>=1, reserved>=0 unbounded ints; all flag vectors%s" % (n, part),
              what=what)


def partitions(n, k):
    """fix new_page and the subline/group flags of rows 1..k (row 0's flags are irrelevant to the kernel but kept
    symbolic)."""
    keys = ["new_page"] + ["s%d" % i for i in range(1, min(k, n - 1) + 1)] + ["g%d" % i for i in range(1, min(k, n - 1) + 1)]
    for vals in itertools.product([False, True], repeat=len(keys)):
        yield dict(zip(keys, vals))


HDR_GLUE = r'''
from vf.hlib import NS
from vf.fakes import FakeFrame, concat_frames
import rtflite as rtf
import rtflite.encoding.unified_encoder as ue
from rtflite.encoding.unified_encoder import UnifiedRTFEncoder
from rtflite.services.encoding_service import RTFEncodingService
from rtflite.pagination.strategies import StrategyRegistry
COLS = ["q", "b", "z", "a"]          # deliberately not in alphabetical order


def run_section(body, n_pages):
    """real UnifiedRTFEncoder._encode_body_section with the polars/pydantic boundary replaced by recorders"""
    seen = {}
    class RecStrategy:
        name = None
        def paginate(self, ctx):
            seen["ctx"] = ctx
            seen["strategy"] = self.name
            return [NS(tag="page%d" % i, data=NS(height=1, width=1)) for i in range(n_pages)]
    def mk(nm):
        return type("Rec_" + nm, (RecStrategy,), {"name": nm})
    def post(pages, processed, rtf_body=None, **kw):
        # tolerant recorder: a refactoring may pass the body's grouping settings instead of the body itself
        seen["post"] = (list(pages), processed, rtf_body)
    me = NS.of(UnifiedRTFEncoder, encoding_service=RTFEncodingService(),
            document_service=NS(calculate_additional_rows_per_page=lambda d: 7),
            feature_processor=NS(process=lambda d, p: NS(processed=p)),
            renderer=NS(render=lambda d, p: [("RENDER", p.processed.tag)]),
            _apply_data_post_processing=post)
    saved_reg = dict(StrategyRegistry._strategies)
    import polars as _real_polars
    from rtflite.pagination.strategies.base import PageContext as _RealPC, PaginationContext as _RealPGC
    saved = swapped((_real_polars, NS(DataFrame=FakeFrame, concat=concat_frames)), (_RealPGC, lambda **kw: NS(**kw)), (_RealPC, lambda **kw: NS(tag="empty", **kw)))
    StrategyRegistry._strategies.update({"default": mk("default"), "page_by": mk("page_by"), "subline": mk("subline")})
    saved.__enter__()
    try:
        # rows 0 and 2 share every possible grouping key (q, b, a); the never-grouped column z tells them apart
        df = FakeFrame({c: ([c + "0", c + "1", c + "2"] if c == "z" else [c + "0", c + "1", c + "0"]) for c in COLS})
        seen["given_rows"] = df.to_dicts()
        doc = NS(rtf_page=NS(col_width=6.0), rtf_body=body)
        out = UnifiedRTFEncoder._encode_body_section(me, doc, df, body)
    finally:
        saved.__exit__()
        StrategyRegistry._strategies.clear()
        StrategyRegistry._strategies.update(saved_reg)
    return seen, out
'''


def glue_ob(oid, timeout):
    """_encode_body_section hands the pagination strategy a consistent context (shared by C02 and C03)."""
    return Ob(
        oid=oid, sig="pa: bool, pb: bool, sb: bool, sd: bool, new_page: bool, first_row: bool, empty: bool",
        pre=["not (pb and sb)", "(pa or pb) or not new_page"], header=HDR_GLUE, timeout=timeout,
        body=r'''
    page_by = [c for c, f in zip(COLS[:2], (pa, pb)) if f] or None
    subline_by = [c for c, f in zip([COLS[1], COLS[3]], (sb, sd)) if f] or None
    body = rtf.RTFBody(page_by=page_by, subline_by=subline_by, new_page=True if new_page else False,
                       pageby_row="first_row" if first_row else "column", col_rel_width=[1, 2, 3, 4])
    seen, out = run_section(body, 0 if empty else 2)
    removed = set(subline_by or [])
    if page_by and (not new_page or first_row):
        removed |= set(page_by)
    shown = [c for c in COLS if c not in removed]
    ctx = seen["ctx"]
    ok = seen["strategy"] == ("subline" if subline_by else ("page_by" if page_by else "default"))
    ok = ok and ctx.df.columns == COLS and ctx.rtf_body is body
    ok = ok and ctx.df.to_dicts() == seen["given_rows"]          # the caller's rows, in the caller's order
    ok = ok and list(ctx.removed_column_indices or []) == [i for i, c in enumerate(COLS) if c in removed]
    ok = ok and len(ctx.col_widths) == len(shown) and ctx.additional_rows_per_page == 7
    ok = ok and list(ctx.table_attrs.col_rel_width) == [w for w, c in zip([1, 2, 3, 4], COLS) if c in shown]
    tot = sum(w for w, c in zip([1, 2, 3, 4], COLS) if c in shown)
    acc = 0.0
    for w, cw in zip(ctx.table_attrs.col_rel_width, ctx.col_widths):
        acc += w * 6.0 / tot
        ok = ok and abs(cw - acc) < 1e-9
    pages, processed, b2 = seen["post"]
    ok = ok and [r[c] for r in seen["given_rows"] for c in shown] == [r[c] for r in processed.to_dicts() for c in shown]
    ok = ok and processed.columns == shown and (b2 is body or b2 is None)
    if empty:
        ok = ok and len(pages) == 1 and pages[0].tag == "empty" and out == [("RENDER", "empty")]
        # the fallback page is a complete page: displayed frame, its widths, the column-reduced attributes, header wanted
        pg = pages[0]
        from rtflite.pagination.strategies.base import PageContext as RealPageContext
        defaults = {k: f.default for k, f in RealPageContext.model_fields.items() if not f.is_required() and f.default_factory is None}
        def given(name):             # a keyword the code did not pass takes the real PageContext's default
            return getattr(pg, name, defaults.get(name))
        ok = ok and given("data") is processed and list(given("col_widths") or []) == list(ctx.col_widths)
        ok = ok and given("table_attrs") is ctx.table_attrs and given("needs_header") is True
        ok = ok and given("is_first_page") is True and given("is_last_page") is True and given("page_number") == 1
    else:
        ok = ok and out == [("RENDER", "page0"), ("RENDER", "page1")]
    return ok
''',
        funcs=["rtflite.encoding.unified_encoder:UnifiedRTFEncoder._encode_body_section",
               "rtflite.services.encoding_service:RTFEncodingService.prepare_dataframe_for_body_encoding",
               "rtflite.row:Utils._col_widths"],
        stubs=["data frame -> FakeFrame (accepted by an isinstance stand-in for pl.DataFrame)",
               "PaginationContext/PageContext -> recording namespaces", "strategies -> recorder returning 0 or 2 pages",
               "document service / feature processor / renderer -> recorders"],
        bounds="4 columns with widths 1:2:3:4; page_by subset of {a,b}, subline_by subset of {b,d}, new_page, pageby_row, empty "
               "result symbolic",
        what="the pagination context gets the ORIGINAL frame, the indices of exactly the removed columns, one cumulative width per "
             "displayed column, the reserved rows, the strategy matching the grouping mode; pages are post-processed with the "
             "column-reduced frame and rendered once each in order (an empty result still renders one page)")


HDR_PREP = r'''
from vf.hlib import NS, pick, concrete_int
from vf.fakes import FakeFrame
import rtflite as rtf
from rtflite.attributes import BroadcastValue
from rtflite.services.encoding_service import RTFEncodingService
SVC = RTFEncodingService()
COLS = ["q", "b", "z", "a", "m"]     # deliberately not in alphabetical order
W = [1.0, 2.0, 3.0, 4.0, 5.0]
JUST = ["l", "c", "r", "j", "d"]
SIZE = [[6, 7, 8, 9, 10], [11, 12, 13, 14, 15]]
'''


def prep_ob(oid, timeout):
    """column removal keeps widths and per-column / per-cell attributes bound to their columns (C08, C09)"""
    return Ob(
        oid=oid, sig="pa: bool, pb: bool, pd: bool, sb: bool, sc: bool, new_page: bool, first_row: bool",
        pre=["not (pb and sb)", "(pa or pb or pd) or not new_page"], header=HDR_PREP, timeout=timeout,
        body=r'''
    page_by = [c for c, f in zip([COLS[0], COLS[1], COLS[3]], (pa, pb, pd)) if f] or None
    subline_by = [c for c, f in zip([COLS[1], COLS[2]], (sb, sc)) if f] or None
    body = rtf.RTFBody(page_by=page_by, subline_by=subline_by, new_page=True if new_page else False,
                       pageby_row="first_row" if first_row else "column", col_rel_width=list(W),
                       text_justification=[list(JUST)], text_font_size=[list(r) for r in SIZE], text_format="b")
    df = FakeFrame({c: [c + "0", c + "1"] for c in COLS})
    processed, original, attrs = SVC.prepare_dataframe_for_body_encoding(df, body)
    removed = set(subline_by or [])
    if page_by and (not new_page or first_row):
        removed |= set(page_by)
    keep = [i for i, c in enumerate(COLS) if c not in removed]
    ok = processed.columns == [COLS[i] for i in keep]
    ok = ok and list(attrs.col_rel_width) == [W[i] for i in keep]
    n = len(keep)
    for r in range(2):
        for j, i in enumerate(keep):
            ok = ok and BroadcastValue(value=attrs.text_justification, dimension=(2, n)).iloc(r, j) == JUST[i]
            ok = ok and BroadcastValue(value=attrs.text_font_size, dimension=(2, n)).iloc(r, j) == SIZE[r][i]
            ok = ok and BroadcastValue(value=attrs.text_format, dimension=(2, n)).iloc(r, j) == "b"
    # the caller's body is untouched
    ok = ok and list(body.col_rel_width) == W and body.text_justification == [JUST] and body.text_font_size == SIZE
    return ok
''',
        funcs=["rtflite.services.encoding_service:RTFEncodingService.prepare_dataframe_for_body_encoding"],
        stubs=["data frame -> FakeFrame (clone, select, columns)"],
        bounds="5 columns with widths 1:2:3:4:5, a per-column justification vector and a 2x5 font-size matrix; page_by subset of "
               "{a,b,d}, subline_by subset of {b,c} (0..4 columns removed at any position), new_page / pageby_row symbolic",
        what="after removing the consumed columns, the displayed columns keep their own relative widths and every per-column and "
             "per-cell attribute value stays bound to its original column; the caller's body object is not modified")
