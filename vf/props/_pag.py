"""Shared obligation builders for the _assign_pages / calculate_row_metadata family (C02, C03, C04, C05)."""
import itertools

from ..runner import Ob

HDR = "from vf.h_pag import *\nfrom vf.hlib import NS\n"
F_ASSIGN = ["rtflite.pagination.core:PageBreakCalculator._assign_pages"]
F_META = ["rtflite.pagination.core:PageBreakCalculator.calculate_row_metadata",
          "rtflite.pagination.core:PageBreakCalculator._calculate_header_rows"] + F_ASSIGN


def assign_ob(oid, n, oracle, what, timeout, fixed=None, extra_body=""):
    """Obligation over the real _assign_pages with n rows.  heights / nrow / add are UNBOUNDED ints
    (h >= 1, nrow >= 1, add >= 0); flags symbolic unless fixed."""
    fixed = fixed or {}
    names = (["h%d" % i for i in range(n)] + ["c%d" % i for i in range(1, n)] + ["s%d" % i for i in range(n)]
             + ["g%d" % i for i in range(n)] + ["nrow", "add", "new_page"])
    types = dict([("h%d" % i, "int") for i in range(n)] + [("c%d" % i, "int") for i in range(n)]
                 + [("s%d" % i, "bool") for i in range(n)]
                 + [("g%d" % i, "bool") for i in range(n)] + [("nrow", "int"), ("add", "int"), ("new_page", "bool")])
    sig = ", ".join("%s: %s" % (a, types[a]) for a in names if a not in fixed)
    pre = ["h%d >= 1" % i for i in range(n)] + ["c%d >= 0" % i for i in range(1, n)] + ["nrow >= 1", "add >= 0"]
    consts = "".join("    %s = %r\n" % (k, v) for k, v in fixed.items())
    body = consts + (
        "    H = [%s]\n    S = [%s]\n    G = [%s]\n    C = [%s]\n" % (
            ", ".join("h%d" % i for i in range(n)), ", ".join("s%d" % i for i in range(n)),
            ", ".join("g%d" % i for i in range(n)), ", ".join(["0"] + ["c%d" % i for i in range(1, n)]))
        + "    pages = assign(H, S, G, nrow, add, new_page, C)\n" + extra_body + "    return " + oracle + "\n")
    part = (" partition " + ",".join("%s=%s" % kv for kv in fixed.items())) if fixed else ""
    return Ob(oid=oid, sig=sig, pre=pre, body=body, header=HDR, timeout=timeout, funcs=F_ASSIGN,
              stubs=["metadata frame -> MetaFrame (height, to_dicts()); pl.DataFrame(rows) -> recording object"],
              bounds="n=%d rows; heights>=1, continuation-heading rows>=0, nrow>=1, reserved>=0 unbounded ints; all flag vectors%s" % (n, part),
              what=what)


def partitions(n, k):
    """fix new_page and the subline/group flags of rows 1..k (row 0's flags are irrelevant to the kernel but kept
    symbolic)."""
    keys = ["new_page"] + ["s%d" % i for i in range(1, min(k, n - 1) + 1)] + ["g%d" % i for i in range(1, min(k, n - 1) + 1)]
    for vals in itertools.product([False, True], repeat=len(keys)):
        yield dict(zip(keys, vals))
