"""C07 - table edges are closed by the documented border hierarchy on every page."""
import itertools

from ..runner import Ob

PLACES = ["first", "last", "all"]

HDR7 = r'''
from vf.hlib import NS
from vf.fakes import FakeFrame
import rtflite as rtf
from rtflite.attributes import BroadcastValue
from rtflite.pagination.processor import PageFeatureProcessor
PF, PL_, BF, BL, UT, UB = "double", "thick", "dashed", "dotted", "wavy", "triple"
PLACE = ["first", "last", "all"]

def shows(k, first, last):
    return k == "all" or (k == "first" and first) or (k == "last" and last)

def grid(v, R, C):
    return BroadcastValue(value=v, dimension=(R, C)).to_list()

BODIES = {(a, b): rtf.RTFBody(border_first=BF, border_last=BL, border_top=UT if a else "", border_bottom=UB if b else "")
          for a in (False, True) for b in (False, True)}
'''


def build(tier, seed):
    quick = tier == "quick"
    T = 240 if quick else 900
    obs = []
    shapes = [(2, 2)] if quick else [(2, 2), (3, 2), (1, 1)]
    for (R, C), pf, ps in itertools.product(shapes, range(3), range(3)):
        obs.append(Ob(
            oid="O1.page_borders.%dx%d.%s_%s" % (R, C, PLACES[pf], PLACES[ps]),
            sig="first: bool, last: bool, has_hdr: bool, nh: bool, fn: int, src: int, " + ("u: bool" if quick else "ut: bool, ub: bool"),
            pre=["0 <= fn <= 2", "0 <= src <= 2"], header=HDR7, timeout=T,
            body=("\n    ut = ub = u" if quick else "") + r'''
    R, C, pf, ps = %d, %d, %r, %r
    body = BODIES[(True if ut else False, True if ub else False)].model_copy(deep=True)
    doc = NS(rtf_body=body, rtf_page=NS(border_first=PF, border_last=PL_, page_footnote=pf, page_source=ps),
             rtf_column_header=[object()] if has_hdr else [],
             rtf_footnote=None if fn == 0 else NS(text="f", as_table=(fn == 1)),
             rtf_source=None if src == 0 else NS(text="s", as_table=(src == 1)))
    df = FakeFrame({"c%%d" %% j: ["x"] * R for j in range(C)})
    page = NS(table_attrs=body, data=df, is_first_page=first, is_last_page=last, component_borders={}, row_start=0,
              needs_header=(True if first else nh), page_number=1 if first else 2)
    attrs = PageFeatureProcessor()._apply_pagination_borders(doc, page)
    top, bot = grid(attrs.border_top, R, C), grid(attrs.border_bottom, R, C)
    user_top, user_bot = (UT if ut else ""), (UB if ub else "")
    # which table row closes the table on this page?
    fn_row = fn == 1 and shows(pf, first, last)
    src_row = src == 1 and shows(ps, first, last)
    closer = "source" if src_row else ("footnote" if fn_row else None)
    want_close = PL_ if last else BL
    want_top = PF if (first and not has_hdr) else BF
    ok = True
    for r in range(R):
        for c in range(C):
            wt = want_top if r == 0 else user_top
            wb = want_close if (r == R - 1 and closer is None) else user_bot
            ok = ok and top[r][c] == wt and bot[r][c] == wb
    ok = ok and grid(attrs.border_left, R, C) == grid(body.border_left, R, C)
    ok = ok and grid(attrs.border_right, R, C) == grid(body.border_right, R, C)
    if closer is None:
        ok = ok and page.component_borders == {}
    else:
        ok = ok and page.component_borders == {closer: want_close}
    # the caller's body attributes are not modified
    ok = ok and body.border_top == [[user_top]] and body.border_bottom == [[user_bot]]
    return ok
''' % (R, C, PLACES[pf], PLACES[ps]),
            funcs=["rtflite.pagination.processor:PageFeatureProcessor._apply_pagination_borders",
                   "rtflite.pagination.processor:PageFeatureProcessor._apply_body_border_first",
                   "rtflite.pagination.processor:PageFeatureProcessor._apply_footnote_source_borders",
                   "rtflite.pagination.processor:PageFeatureProcessor._apply_border_to_cell",
                   "rtflite.attributes:BroadcastValue.update_cell", "rtflite.attributes:BroadcastValue.to_list"],
            stubs=["page frame -> FakeFrame (height, width)", "document/page -> namespaces around a REAL RTFBody"],
            bounds="%dx%d page; page_footnote=%s page_source=%s; first/last page, column header presence, header repetition on later pages, footnote and source "
                   "in absent|table|paragraph, user border_top/border_bottom empty or set%s: all symbolic; six distinct style "
                   "tokens" % (R, C, PLACES[pf], PLACES[ps], " (together)" if quick else " (independently)"),
            what="first data row top = rtf_page.border_first (first page, no column header) else rtf_body.border_first; the last "
                 "table row of the page (table-rendered source, else footnote, else last data row) bottom = rtf_page.border_last "
                 "on the last page else rtf_body.border_last; every other edge carries the user's border"))
    # O2: page border_first on the first column-header row of the first page
    obs.append(Ob(
        oid="O2.header_top_border", sig="first: bool, two: bool, has_pf: bool, auto_text: bool",
        pre=[], timeout=T,
        header=HDR7 + r'''
from rtflite.encoding.renderer import PageRenderer
H1 = rtf.RTFColumnHeader(text=["A", "B"], border_top=UT)
H2 = rtf.RTFColumnHeader(text=["C", "D"], border_top=UB)
''',
        body=r'''
    seen = []
    r = PageRenderer.__new__(PageRenderer)
    r.encoding_service = NS(encode_column_header=lambda text, hdr, w: (seen.append((list(text), hdr.border_top)), ["HROW"])[1])
    doc = NS(rtf_column_header=[H1, H2] if two else [H1], rtf_body=NS(as_colheader=True, col_rel_width=None),
             rtf_page=NS(border_first=PF if has_pf else None, col_width=6.0))
    page = NS(is_first_page=first, data=None, table_attrs=None)
    out = PageRenderer._render_column_headers(r, doc, page)
    if out != ["HROW"] * (2 if two else 1) or len(seen) != (2 if two else 1):
        return False
    t0 = grid(seen[0][1], 1, 2)
    ok = t0 == ([[PF, PF]] if (first and has_pf) else [[UT, UT]])
    if two:
        ok = ok and grid(seen[1][1], 1, 2) == [[UB, UB]]
    return ok and H1.border_top == [[UT]] and H2.border_top == [[UB]]
''',
        funcs=["rtflite.encoding.renderer:PageRenderer._render_column_headers", "rtflite.attributes:BroadcastValue.update_row"],
        stubs=["encode_column_header -> recorder", "real RTFColumnHeader objects"],
        bounds="one or two header rows of two cells; first page, border_first set/unset symbolic",
        what="the top edge of the first header row of the first page carries rtf_page.border_first; other header rows and other "
             "pages keep their own border_top; the caller's header objects are untouched"))
    # O3: footnote/source border override
    for comp in ("footnote", "source"):
        obs.append(Ob(
            oid="O3.override." + comp, sig="ov: int, own: int", pre=["0 <= ov <= 3", "0 <= own <= 2"], timeout=T,
            header=HDR7 + r'''
import re
from vf import minipl
from rtflite.services.encoding_service import RTFEncodingService
SVC = RTFEncodingService()
STY = ["", "single", "dotted"]
OV = [None, "thick", "double", "dashed"]
CODE = {"": "", "single": "\\brdrs", "dotted": "\\brdrdot", "thick": "\\brdrth", "double": "\\brdrdb", "dashed": "\\brdrdash"}
''',
            body=r'''
    own_s = "" if own == 0 else ("single" if own == 1 else "dotted")
    ov_s = None if ov == 0 else ("thick" if ov == 1 else ("double" if ov == 2 else "dashed"))
    cls = rtf.RTFFootnote if %r == "footnote" else rtf.RTFSource
    c = cls(text="note", as_table=True, border_bottom=own_s)
    fn = SVC.encode_footnote if %r == "footnote" else SVC.encode_source
    with minipl.substituted():
        out = "".join(fn(c, page_number=1, page_col_width=6.0, border_style=ov_s))
    want = ov_s if ov_s else own_s
    m = re.search(r"\\clbrdrb((?:\\brdr[a-z]+)?)\\brdrw", out)
    return m is not None and m.group(1) == CODE[want] and out.count("\\cellx") == 1 and c.border_bottom == [[own_s]]
''' % (comp, comp),
            funcs=["rtflite.services.encoding_service:RTFEncodingService.encode_footnote",
                   "rtflite.services.encoding_service:RTFEncodingService.encode_source", "rtflite.attributes:TableAttributes._encode"],
            stubs=["polars -> vf.minipl model (one-cell frame)"],
            bounds="own border_bottom in {'',single,dotted}; override in {none,thick,double,dashed}",
            what="the bottom edge of the table-rendered %s row is the override when one is given, else the component's own; the "
                 "component object is not modified" % comp))
    # O4: single-cell update touches only that cell
    for vr, vc in ((1, 1), (1, 3), (3, 3), (2, 1)):
        obs.append(Ob(
            oid="O4.update_cell.v%dx%d" % (vr, vc), sig="r: int, c: int, side: bool", pre=["0 <= r <= 2", "0 <= c <= 2"], header=HDR7, timeout=T,
            body=r'''
    R, C = 3, 3
    val = [["v%%d%%d" %% (i, j) for j in range(%d)] for i in range(%d)]
    before = grid(val, R, C)
    attrs = NS(border_top=[row[:] for row in val], border_bottom=[row[:] for row in val])
    PageFeatureProcessor()._apply_border_to_cell(attrs, r, c, "top" if side else "bottom", "NEW", (R, C))
    after = grid(attrs.border_top if side else attrs.border_bottom, R, C)
    other = grid(attrs.border_bottom if side else attrs.border_top, R, C)
    ok = other == before
    for i in range(R):
        for j in range(C):
            ok = ok and after[i][j] == ("NEW" if (i == r and j == c) else before[i][j])
    return ok
''' % (vc, vr),
            funcs=["rtflite.pagination.processor:PageFeatureProcessor._apply_border_to_cell", "rtflite.attributes:BroadcastValue.update_cell",
                   "rtflite.attributes:BroadcastValue.to_list"],
            bounds="3x3 page, attribute value of shape %dx%d recycled over it, target cell and side symbolic (solver-enumerated)" % (vr, vc),
            what="stamping a border on cell (r,c) changes that cell only: no other row, column or side is affected"))
    # O5: per-row border matrices stay bound to their table rows on every page, whichever strategy built the pages (shared with C09-O5)
    from .C09 import build as c09_build
    for ob in c09_build(tier, seed)[0]:
        if ob.oid == "O5.page_binding":
            obs.append(ob)
    meta = {
        "explanation": "The three-tier border hierarchy is decided on the real PageFeatureProcessor with a REAL RTFBody carried "
                       "concretely through symbolic control flow (page position, header presence, footnote/source kind and "
                       "placement, user borders): for every combination the edges of every cell of the page and the component "
                       "override must be what the statement prescribes. Header top border, footnote/source override and the "
                       "single-cell update are decided the same way.",
        "outside": ["multi-section first/last clauses", "per-column user border vectors that override border_first", "pages larger "
                    "than the stated shapes"],
        "assumptions": ["FakeFrame height/width equal the page frame's"],
    }
    return obs, meta
