"""C16 - figures are embedded byte-exactly, one per page, at the configured size."""
from ..runner import Ob

HDRF = r'''
from vf.hlib import NS, concrete_int
from rtflite.services.figure_service import RTFFigureService as FS
from rtflite.encoding.unified_encoder import UnifiedRTFEncoder
import rtflite.figure as figmod
PNG_SIG = b"\x89PNG\r\n\x1a\n"
SOF = (0xC0, 0xC1, 0xC2, 0xC3, 0xC5, 0xC6, 0xC7, 0xC9, 0xCA, 0xCB, 0xCD, 0xCE, 0xCF)
'''


def build(tier, seed):
    quick = tier == "quick"
    T = 240 if quick else 600
    obs = []
    # O1: hex payload
    for n in ((1, 2, 3) if quick else (1, 2, 3, 4)):
        obs.append(Ob(
            oid="O1.hex.n%d" % n, sig="data: bytes", pre=["len(data) == %d" % n], header=HDRF, timeout=T,
            body=r'''
    out = FS._binary_to_hex(data)
    return bytes.fromhex(out.replace("\n", "")) == data and all(len(l) <= 80 for l in out.split("\n"))
''',
            funcs=["rtflite.services.figure_service:RTFFigureService._binary_to_hex"],
            bounds="arbitrary byte strings of length %d" % n, what="the hexadecimal payload decodes to exactly the input bytes; lines <= 80 characters"))
    obs.append(Ob(
        oid="O1.hex.lengths", sig="n: int", pre=["0 <= n <= 130"], header=HDRF + "PATTERN = bytes((37 * i + 11) % 256 for i in range(140))\n", timeout=T,
        body=r'''
    data = PATTERN[:n]
    out = FS._binary_to_hex(data)
    lines = out.split("\n")
    ok = bytes.fromhex("".join(lines)) == data and all(len(l) <= 80 for l in lines) and all(len(l) == 80 for l in lines[:-1])
    return ok and (n == 0 or lines[-1] != "")
''',
        funcs=["rtflite.services.figure_service:RTFFigureService._binary_to_hex"],
        bounds="payload length 0..130 bytes (symbolic, solver-enumerated: crosses the 80-character line boundary three times), fixed "
               "byte pattern", what="line wrapping at 80 characters neither drops nor duplicates payload characters and leaves no empty line"))
    # O2: pixel dimensions from the image header
    obs.append(Ob(
        oid="O2.png_dimensions", sig="w: int, h: int, tail: int", pre=["0 <= w < 2**32 and 0 <= h < 2**32", "0 <= tail <= 255"], header=HDRF, timeout=T,
        body=r'''
    data = PNG_SIG + b"\x00\x00\x00\rIHDR" + w.to_bytes(4, "big") + h.to_bytes(4, "big") + bytes([8, 2, 0, 0, 0, tail])
    return FS._get_png_dimensions(data) == (w, h) and FS._get_image_dimensions(data, "png") == (w, h)
''',
        funcs=["rtflite.services.figure_service:RTFFigureService._get_png_dimensions", "rtflite.services.figure_service:RTFFigureService._get_image_dimensions"],
        bounds="width, height arbitrary 32-bit values", what="\\picw/\\pich source: PNG IHDR width and height are read exactly"))
    obs.append(Ob(
        oid="O2.not_an_image", sig="b0: int, b1: int", pre=["0 <= b0 <= 255 and 0 <= b1 <= 255", "not (b0 == 0x89) and not (b0 == 0xFF and b1 == 0xD8)"],
        header=HDRF, timeout=T,
        body=r'''
    data = bytes([b0, b1]) + b"NG\r\n\x1a\n" + bytes(30)
    return FS._get_image_dimensions(data, "png") == (None, None) and FS._get_image_dimensions(data, "jpeg") == (None, None) \
        and FS._get_image_dimensions(PNG_SIG + bytes(30), "emf") == (None, None)
''',
        funcs=["rtflite.services.figure_service:RTFFigureService._get_image_dimensions"],
        bounds="arbitrary first two bytes that are neither a PNG nor a JPEG signature", what="non-image data yields (None, None)"))
    for nseg in (0, 1, 2):
        segsig = "".join(", m%d: int, l%d: int" % (i, i) for i in range(nseg))
        pre = ["0 <= w <= 65535 and 0 <= h <= 65535", "0 <= sof <= 12"]
        for i in range(nseg):
            # a non-SOF marker segment (APPn, DQT, DHT, COM ...) of payload length l
            pre += ["0xC0 <= m%d <= 0xFE and m%d not in SOF and m%d != 0xD8 and m%d != 0xD9" % (i, i, i, i), "2 <= l%d <= 5" % i]
        segs = " + ".join("bytes([0xFF, m%d]) + l%d.to_bytes(2, 'big') + bytes([1]) * (l%d - 2)" % (i, i, i) for i in range(nseg)) or "b''"
        obs.append(Ob(
            oid="O2.jpeg_dimensions.s%d" % nseg, sig="w: int, h: int, sof: int" + segsig, pre=pre, header=HDRF, timeout=T,
            body=r'''
    data = b"\xff\xd8" + %s + bytes([0xFF, SOF[sof]]) + b"\x00\x11\x08" + h.to_bytes(2, "big") + w.to_bytes(2, "big") + bytes(12)
    return FS._get_jpeg_dimensions(data) == (w, h)
''' % segs,
            funcs=["rtflite.services.figure_service:RTFFigureService._get_jpeg_dimensions"],
            bounds="%d non-frame marker segment(s) with symbolic marker (any of APPn/DQT/DHT/COM/...) and length before a SOFn frame header "
                   "with symbolic marker, width and height" % nseg,
            what="JPEG dimensions are taken from the first start-of-frame segment, skipping every other segment by its length"))
    # O3: format from the file suffix
    obs.append(Ob(
        oid="O3.format", sig="i: int, upper: bool", pre=["0 <= i <= 4"], header=HDRF + "from pathlib import Path\nSUF = ['.png', '.jpg', '.jpeg', '.emf', '.gif']\nFMT = ['png', 'jpeg', 'jpeg', 'emf']\n", timeout=T,
        body=r'''
    s = SUF[i].upper() if upper else SUF[i]
    try:
        got = figmod._determine_image_format(Path("/x/fig" + s))
    except ValueError:
        return i == 4
    return i < 4 and got == FMT[i]
''',
        funcs=["rtflite.figure:_determine_image_format"], bounds="suffix in {.png,.jpg,.jpeg,.emf,.gif} in lower or upper case",
        what="the picture type follows the file format; an unsupported format raises ValueError"))
    # O4: per-figure sizes positionally, last value reused; figures in order with their own bytes and format
    for nfig in ((1, 2, 3) if quick else (1, 2, 3, 4, 5)):
        obs.append(Ob(
            oid="O4.dimensions_order.n%d" % nfig, sig="lw: int, lh: int, scalar_w: bool", pre=["1 <= lw <= 4 and 1 <= lh <= 4"], header=HDRF, timeout=T,
            body=r'''
    n = %d
    W = [1.0 + j for j in range(lw)]
    H = [10.0 + j for j in range(lh)]
    calls = []
    me = UnifiedRTFEncoder.__new__(UnifiedRTFEncoder)
    me.encoding_service = NS(encode_document_start=lambda: "{S", encode_font_table=lambda: "", encode_color_table=lambda d=None: "",
                             encode_page_header=lambda c, method="line": "", encode_page_footer=lambda c, method="line": "",
                             encode_page_settings=lambda p: "", encode_title=lambda t, method="line": "",
                             encode_subline=lambda t, method="line": "", encode_footnote=lambda *a, **k: [], encode_source=lambda *a, **k: [])
    class Rec(FS):
        @staticmethod
        def _encode_single_figure(data, fmt, w, h, align):
            calls.append((data, fmt, w, h, align))
            return "FIG"
    me.figure_service = Rec()
    saved = swapped((figmod.rtf_read_figure, lambda paths: ([b"img%%d" %% j for j in range(len(paths))], ["png" if j %% 2 == 0 else "jpeg" for j in range(len(paths))])))
    saved.__enter__()
    try:
        doc = NS(rtf_figure=NS(figures=["f"] * n, fig_width=W[0] if (scalar_w and lw == 1) else W, fig_height=H, fig_align="right"),
                 rtf_title=None, rtf_subline=None, rtf_footnote=None, rtf_source=None,
                 rtf_page=NS(page_title="all", page_footnote="last", page_source="last", col_width=6.0),
                 rtf_page_header=None, rtf_page_footer=None)
        out = me._encode_figure_only(doc)
    finally:
        saved.__exit__()
    exp = [(b"img%%d" %% j, "png" if j %% 2 == 0 else "jpeg", W[min(j, lw - 1)], H[min(j, lh - 1)], "right") for j in range(n)]
    return calls == exp and out.count("FIG") == n and out.count("\\page ") == n - 1
''' % nfig,
            funcs=["rtflite.encoding.unified_encoder:UnifiedRTFEncoder._encode_figure_only", "rtflite.services.figure_service:RTFFigureService._get_dimension"],
            stubs=["rtf_read_figure -> tagged byte strings", "_encode_single_figure -> recorder", "encoding service -> empty tokens"],
            bounds="%d figures; fig_width / fig_height lists of symbolic length 1..4 (width optionally a scalar)" % nfig,
            what="figure j is embedded with its own bytes and format, in order, with width/height taken positionally and the last "
                 "value reused when the list is shorter; one \\page between figures"))
    obs.append(Ob(
        oid="O4.get_dimension", sig="n: int, i: int", pre=["1 <= n <= 4 and 0 <= i <= 6"], header=HDRF, timeout=T,
        body=r'''
    vals = [2.0 + j for j in range(n)]
    return FS._get_dimension(vals, i) == vals[min(i, n - 1)] and FS._get_dimension(7.5, i) == 7.5
''',
        funcs=["rtflite.services.figure_service:RTFFigureService._get_dimension"], bounds="list length 1..4, index 0..6",
        what="positional lookup with the last value reused; scalars apply to every figure"))
    # O5: picture group: blip keyword, pixel dimensions, alignment, goal sizes (engine B), payload
    obs.append(Ob(
        oid="O5.picture_group", sig="f: int, al: int", pre=["0 <= f <= 2 and 0 <= al <= 3"],
        header=HDRF + "FM = ['png', 'jpeg', 'emf']\nBLIP = ['\\\\pngblip', '\\\\jpegblip', '\\\\emfblip']\nAL = ['left', 'center', 'right', 'bogus']\nALC = ['\\\\ql ', '\\\\qc ', '\\\\qr ', '\\\\ql ']\n",
        timeout=T,
        body=r'''
    w, h, b = 640, 480, 7
    if f == 0:
        data = PNG_SIG + b"\x00\x00\x00\rIHDR" + w.to_bytes(4, "big") + h.to_bytes(4, "big") + bytes([8, 2, 0, 0, 0, b])
    elif f == 1:
        data = b"\xff\xd8\xff\xc0\x00\x11\x08" + h.to_bytes(2, "big") + w.to_bytes(2, "big") + bytes([b]) * 12
    else:
        data = bytes([1, 0, 0, 0, b]) * 8
    out = FS._encode_single_figure(data, FM[f], 2.5, 1.25, AL[al])
    pw, ph = (w, h) if f < 2 else (240, 120)
    head = ALC[al] + "{\\pict" + BLIP[f] + "\\picw%d\\pich%d\\picwgoal3600\\pichgoal1800 " % (pw, ph)
    return out.startswith(head) and out.endswith("}") and bytes.fromhex(out[len(head):-1].replace("\n", "")) == data
''',
        funcs=["rtflite.services.figure_service:RTFFigureService._encode_single_figure"],
        bounds="format in png|jpeg|emf and alignment in left|center|right|other symbolic; header 640x480 (symbolic headers: O2)",
        what="the picture group carries the blip keyword of the format, the pixel dimensions read from the image (96 dpi fallback for "
             "EMF), the alignment, the goal size in twips and the exact payload"))
    obs.append(Ob(oid="O5.goal_sizes", kind="py", target="vf.engb_obs:figure_goals", kwargs={"tier": tier, "seed": seed}, timeout=T,
                  funcs=["rtflite.services.figure_service:RTFFigureService._encode_single_figure"],
                  stubs=["int/round in figure_service -> shims that keep proxy numbers"],
                  bounds="fig_width, fig_height in [0.1, 40] in as IEEE-754 doubles", what="\\picwgoal/\\pichgoal are within one twip of inches*1440"))
    # O6: the bytes embedded are the bytes the file has WHEN it is read (nothing remembered per path)
    obs.append(Ob(
        oid="O6.read_history", sig="v1: int, v2: int, aslist: bool", pre=["0 <= v1 <= 3 and 0 <= v2 <= 3"], timeout=T,
        header=HDRF + r"""
import io, os
HERE = os.path.dirname(os.path.abspath(__file__))
PRESENT = os.path.join(HERE, "vf_c16_present.png")
if not os.path.exists(PRESENT):
    with open(PRESENT, "wb") as _f:
        _f.write(PNG_SIG)
""",
        body=r"""
    v1, v2 = concrete_int(v1, 0, 3), concrete_int(v2, 0, 3)
    state = [PNG_SIG + bytes([v1])]
    figmod.open = lambda path, mode="rb", *a, **k: io.BytesIO(state[0])        # the file's content is `state[0]`
    try:
        d1, f1 = figmod.rtf_read_figure(PRESENT)
        state[0] = PNG_SIG + bytes([v2]) + b"tail"                              # the file is rewritten
        d2, f2 = figmod.rtf_read_figure([PRESENT] if aslist else PRESENT)
    finally:
        del figmod.open
    return list(d1) == [PNG_SIG + bytes([v1])] and list(d2) == [PNG_SIG + bytes([v2]) + b"tail"] and list(f1) == ["png"] == list(f2)
""",
        funcs=["rtflite.figure:rtf_read_figure", "rtflite.figure:_read_image_data"],
        stubs=["open() inside rtflite.figure -> in-memory file whose content the harness changes between the two reads"],
        bounds="one path read twice in one process, the file content (one of 4 contents, then one of 4 longer contents; symbolic choice) "
               " changed in between",
        what="each read returns the content the file has at that moment"))
    # O7: placement of figures and the components around them (shared with C06-O3)
    from .C06 import build as c06_build
    for ob in c06_build(tier, seed)[0]:
        if ob.oid.startswith("O3.figure_only"):
            ob.oid = "O7." + ob.oid[3:]
            obs.append(ob)
    meta = {
        "explanation": "The byte-level kernels of the figure path run symbolically on the real code: hex payload of arbitrary byte "
                       "strings and at the 80-character line boundary, PNG and JPEG dimension parsing with symbolic headers and "
                       "symbolic preceding marker segments, format detection, positional size lookup, the per-figure loop of the "
                       "figure-only encoder, the picture group, and (engine B, bit-exact doubles) the goal sizes.",
        "outside": ["the operating system's open/read (stood in by an in-memory file in O6)", "MIME fallback for files without a known suffix", "payloads longer than the stated sizes "
                    "(bytes.hex() is linear; the boundary obligations cover the wrapping arithmetic)", "placement inside table documents (C06)"],
        "assumptions": [],
    }
    return obs, meta
