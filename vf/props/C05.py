"""C05 - every data row sits under its own group heading on its own page."""
import itertools

from ..runner import Ob
from ._pag import F_META, HDR

HDR5 = HDR + r'''
from vf.fakes import FakeFrame
from vf.hlib import with_tc
DIV = "-----"
PR = ["column", "first_row"]

LEVELS = ["g", "h", "k"]

def render_bodyL(n, bounds, vals, init, new_page, pr, nlev=2):
    """real _render_body with nlev page_by levels; vals[i] = dict of the boundary's group_values (dividers already
    filtered out, as _detect_group_boundaries does); init = group_values of the page's first row"""
    r = token_renderer()
    doc = NS(rtf_body=NS(new_page=new_page, pageby_row=PR[pr], page_by=LEVELS[:nlev]), df=None, rtf_page=NS(col_width=6.0))
    gb = [{"absolute_row": b, "page_relative_row": b, "group_values": v} for b, v in zip(bounds, vals)]
    page = NS(final_body_attrs=row_attrs(), table_attrs=None, data=FakeFrame({"v": ["r%d" % i for i in range(n)]}),
              col_widths=[1.0], group_boundaries=gb or None, pageby_header_info={"group_values": dict(init)})
    return PageRenderer._render_body(r, doc, page)

def expected_body(n, bounds, vals, init, nlev):
    """the statement: at a boundary, the value of level j is rendered iff the group key differs from the PREVIOUS
    GROUP's key at level j or at an outer level ('-----' levels count as a key value but render nothing)"""
    exp = []
    state = {l: init.get(l, DIV) for l in LEVELS[:nlev]}
    prev = 0
    for b, v in zip(bounds, vals):
        exp += [("ROW", "r%d" % i, i) for i in range(prev, b)]
        force = False
        for lvl in LEVELS[:nlev]:
            cur = v.get(lvl, DIV)
            if cur != state[lvl] or force:
                force = True
                if cur != DIV:
                    exp.append(("SPAN", cur, 0))
            state[lvl] = cur
        prev = b
    exp += [("ROW", "r%d" % i, i) for i in range(prev, n)]
    return exp
'''


def build(tier, seed):
    quick = tier == "quick"
    T = 240 if quick else 600
    obs = []
    # O1: heading values come from the page's first row, dividers dropped, level order kept
    for levels in ((1, 2) if quick else (1, 2, 3)):
        sig = ", ".join("a%d: str, b%d: str, da%d: bool, db%d: bool" % (j, j, j, j) for j in range(levels)) + ", start: int, rev: bool"
        pre = ["len(a%d) == 1 and len(b%d) == 1" % (j, j) for j in range(levels)] + ["0 <= start <= 2"]
        cols = "{" + ", ".join("'l%d': [DIV if da%d else a%d, DIV if db%d else b%d]" % (j, j, j, j, j) for j in range(levels)) + "}"
        obs.append(Ob(
            oid="O1.group_headers.l%d" % levels, sig=sig, pre=pre, header=HDR5, timeout=T,
            body=r'''
    cols = %s
    names = list(cols)
    frame_cols = dict((c, cols[c]) for c in (reversed(names) if rev else names))     # frame column order != page_by order
    frame_cols["v"] = ["x", "y"]
    got = PageByStrategy._get_group_headers(NS.of(PageByStrategy), FakeFrame(frame_cols), names, start)
    if start >= 2:
        return got == {}
    exp = [(c, cols[c][start]) for c in names if cols[c][start] != DIV]
    return list(got["group_values"].items()) == exp and got["group_by_columns"] == names
''' % cols,
            funcs=["rtflite.pagination.strategies.grouping:PageByStrategy._get_group_headers"],
            stubs=["data frame -> FakeFrame"],
            bounds="%d page_by level(s), 2 rows, each key a symbolic one-character string or the '-----' divider, start row symbolic, frame columns in page_by order or reversed" % levels,
            what="heading values are those of the page's first row, '-----' dropped, page_by order preserved; empty past the end"))
    # O2: hierarchical re-rendering at in-page boundaries (2 and 3 levels)
    shapes = [(2, 2, (1,)), (2, 3, (1,)), (2, 3, (2,)), (2, 3, (1, 2)), (3, 2, (1,)), (3, 3, (2,))]
    if not quick:
        shapes += [(2, 4, (1, 3)), (2, 4, (1, 2, 3)), (3, 3, (1,)), (3, 3, (1, 2)), (3, 4, (1, 3))]
    for nlev, n, bounds in shapes:
        r = len(bounds)
        L = "abc"[:nlev]
        sig = ", ".join("%s0: str" % c for c in L) + "".join(
            ", " + ", ".join("%s%d: str" % (c, i) for c in L) + "".join(", d%s%d: bool" % (c, i) for c in L[1:])
            for i in range(1, r + 1)) + "".join(", d%s0: bool" % c for c in L[1:]) + ", new_page: bool, pr: int"
        pre = ["len(%s%d) == 1" % (c, i) for c in L for i in range(r + 1)] + ["0 <= pr <= 1"]
        def gv(i):
            items = ["'g': a%d" % i]
            return "dict([('g', a%d)]" % i + "".join(
                " + ([] if d%s%d else [(%r, %s%d)])" % (c, i, "ghk"[j + 1], c, i) for j, c in enumerate(L[1:])) + ")"
        vals = "[" + ", ".join(gv(i) for i in range(1, r + 1)) + "]"
        obs.append(Ob(
            oid="O2.hier.l%d.n%d.b%s" % (nlev, n, "_".join(map(str, bounds))), sig=sig, pre=pre, header=HDR5, timeout=T,
            body=r'''
    bounds = %r
    vals = %s
    init = %s
    out = render_bodyL(%d, bounds, vals, init, new_page, pr, %d)
    if new_page and pr == 0:
        # page_by kept as a column: no spanning rows at all, body rendered in one piece
        return out == [("ROW", "r%%d" %% i, i) for i in range(%d)]
    if out != expected_body(%d, bounds, vals, init, %d):
        return False
    return not (out and out[-1][0] == "SPAN")
''' % (list(bounds), vals, gv(0), n, nlev, n, n, nlev),
            funcs=["rtflite.encoding.renderer:PageRenderer._render_body"],
            stubs=["page frame -> FakeFrame", "_encode / encode_spanning_row -> recorders"],
            bounds="page of %d rows, boundaries at %s, %d page_by levels with symbolic one-character values, inner levels "
                   "optionally '-----' dividers (also on the page's first row), new_page/pageby_row symbolic" % (n, list(bounds), nlev),
            what="at a boundary the value of level j is rendered iff the group key differs from the previous group's key at "
                 "level j or an outer level, outer before inner, dividers render nothing, no heading ends the page"))
    # O3: headings at the top of the page (render step 7)
    obs.append(Ob(
        oid="O3.top_headings", sig="a: str, b: str, na: bool, nb: bool, new_page: bool, pr: int, has_info: bool, fa: int, fb: int",
        pre=["len(a) == 1 and len(b) == 1", "0 <= pr <= 1", "0 <= fa <= 3 and 0 <= fb <= 3"], header=HDR5, timeout=T,
        body=r'''
    r = token_renderer()
    r._render_column_headers = lambda d, p: [("HROW",)]
    r._render_body = lambda d, p: [("ROW", "r0", 0)]
    gv = {}
    # group values are data: any string, and the falsy values "" / 0 / False of string, numeric and boolean key columns
    if not na:
        gv["g"] = a if fa == 0 else ("" if fa == 1 else (0 if fa == 2 else False))
    if not nb:
        gv["h"] = b if fb == 0 else ("" if fb == 1 else (0 if fb == 2 else False))
    info = {"group_by_columns": ["g", "h"], "group_values": gv} if has_info else None
    doc = NS(rtf_title=None, rtf_subline=None, rtf_page=NS(page_title="all", page_footnote="last", page_source="last", col_width=6.0),
             rtf_figure=None, rtf_column_header=[object()], rtf_footnote=None, rtf_source=None, df=None,
             rtf_body=NS(new_page=new_page, pageby_row=PR[pr], page_by=["g", "h"], subline_by=None))
    page = NS(is_first_page=True, is_last_page=True, subline_header=None, needs_header=True, pageby_header_info=info,
              group_boundaries=None, component_borders={}, page_number=1)
    out = [x for x in PageRenderer.render(r, doc, page) if isinstance(x, tuple)]
    exp = [("HROW",)]
    if has_info and (not new_page or pr == 1):
        exp += [("SPAN", v if isinstance(v, str) else str(v), 0) for v in gv.values()]
    exp.append(("ROW", "r0", 0))
    return out == exp
''',
        funcs=["rtflite.encoding.renderer:PageRenderer.render"],
        stubs=["services -> role tokens", "_render_body/_render_column_headers -> one token each"],
        bounds="two page_by levels, values symbolic one-character strings, '' / 0 / False, or absent (divider), new_page/pageby_row symbolic",
        what="headings for all non-divider levels precede the body, after the column headers, in page_by order, iff page_by "
             "is shown as spanning rows (not new_page or pageby_row != 'column')"))
    # O4: never stranded / always under its heading, on the chained pipeline
    for n in ((2, 3) if quick else (2, 3, 4)):
        ks = ", ".join("k%d: str" % i for i in range(n))
        obs.append(Ob(
            oid="O4.under_heading.n%d" % n, sig=ks + ", nrow: int, add: int, new_page: bool, first_row: bool",
            pre=["len(k%d) == 1" % i for i in range(n)] + ["nrow >= 1", "add >= 0", "(not new_page) or first_row"],
            header=HDR5, timeout=T,
            body=r'''
    K = [%s]
    rows, pages = chain({"g": K}, ["g"], [1] * %d, nrow, add, new_page, "first_row" if first_row else "column")
    seen = []
    for toks in pages:
        if not toks or toks[-1][0] == "SPAN":
            return False            # heading stranded at the bottom of a page / empty page
        cur = None
        for i, t in enumerate(toks):
            if t[0] == "SPAN":
                cur = t[1]
            else:
                idx = int(t[1][1:])
                seen.append(idx)
                if cur != K[idx]:
                    return False    # data row not under the heading of its own group on this page
    return seen == list(range(%d))
''' % (", ".join("k%d" % i for i in range(n)), n, n),
            funcs=F_META + ["rtflite.pagination.strategies.grouping:PageByStrategy._get_group_headers",
                            "rtflite.pagination.strategies.grouping:PageByStrategy._detect_group_boundaries",
                            "rtflite.encoding.renderer:PageRenderer.render", "rtflite.encoding.renderer:PageRenderer._render_body"],
            stubs=["data frame -> FakeFrame", "get_string_width -> constant", "paginate() glue mirrored", "services -> role tokens"],
            bounds="%d one-line rows, one page_by level with symbolic one-character keys (page_by shown as spanning rows), nrow/reserved "
                   "unbounded" % n,
            what="on every page each data row is preceded by the heading of its own group (at the top when the group continues), "
                 "no heading is the last element of a page, all rows appear once in order"))
    # O5: subline heading text and one subline group per page
    obs.append(Ob(
        oid="O5.subline_text", sig="a: str, b: str, nb: bool", pre=["len(a) == 1 and 'a' <= a <= 'z'", "len(b) == 1 and 'a' <= b <= 'z'"],
        header=HDR5, timeout=T,
        body=r'''
    r = token_renderer()
    info = {"group_values": {"s": a, "t": None if nb else b}}
    out = with_tc(lambda: PageRenderer._generate_subline_header(r, info))
    want = a if nb else a + ", " + b
    return out.count("{\\f0 " + want + "}\\par}") == 1 and PageRenderer._generate_subline_header(r, {"group_values": {}}) == ""
''',
        funcs=["rtflite.encoding.renderer:PageRenderer._generate_subline_header", "rtflite.encoding.renderer:PageRenderer._format_group_header"],
        bounds="two subline_by levels, lowercase symbolic letters, second level optionally absent",
        what="the subline heading paragraph names exactly the non-null group values, in order"))
    for n in ((2, 3) if quick else (2, 3, 4)):
        ks = ", ".join("k%d: str" % i for i in range(n))
        obs.append(Ob(
            oid="O5.one_group_per_page.n%d" % n, sig=ks + ", nrow: int, add: int", pre=["len(k%d) == 1" % i for i in range(n)] + ["nrow >= 1", "add >= 0"],
            header=HDR5, timeout=T,
            body=r'''
    K = [%s]
    rows = metadata({"s": K, "v": ["x"] * %d}, [1.0], None, ["s"], [0], nrow, add, True, lambda t, f, z: 0.5)
    for i in range(1, %d):
        if K[i] != K[i - 1] and rows[i]["page"] == rows[i - 1]["page"]:
            return False
    return True
''' % (", ".join("k%d" % i for i in range(n)), n, n),
            funcs=F_META, stubs=["data frame -> FakeFrame", "get_string_width -> constant"],
            bounds="%d rows, symbolic one-character subline keys, nrow/reserved unbounded" % n,
            what="a change of subline_by value always starts a new page, so each page carries one subline group"))
    # O7: divider values never cost a row
    obs.append(Ob(
        oid="O7.dividers_cost_nothing", sig="k: str, d0: bool, d1: bool, d2: bool, nrow: int, add: int", pre=["len(k) == 1", "nrow >= 1 and add >= 0"],
        header=HDR5, timeout=T,
        body=r'''
    G = [DIV if d else k for d in (d0, d1, d2)]
    rows = metadata({"g": G, "v": ["x"] * 3}, [1.0], ["g"], None, [0], nrow, add, False, lambda t, f, s: 0.5)
    for i, r in enumerate(rows):
        if G[i] == DIV and (r["pageby_header_rows"] != 0 or (r.get("continuation_header_rows") or 0) != 0 or r["total_rows"] != 1):
            return False
    return True
''',
        funcs=F_META, stubs=["data frame -> FakeFrame", "get_string_width -> constant"],
        bounds="3 rows, one page_by level, each key a symbolic character or the '-----' divider, nrow/reserved unbounded",
        what="a row of a '-----' divider group is budgeted with its data lines only: no heading row, no repeated-heading row"))
    # O6: paginate() attaches the heading values of the page's first row and the in-page boundaries to every page
    for which in (1, 2):
        obs.append(Ob(
            oid="O6.paginate_headers.%s" % ["", "page_by", "subline"][which],
            sig="k0: str, k1: str, k2: str, pageby_header: bool, new_page: bool, p1: bool, p2: bool",
            pre=["len(k0) == 1 and len(k1) == 1 and len(k2) == 1"], header=HDR5 + "from vf.h_paginate import run_paginate\n", timeout=T,
            body=r'''
    K = [k0, k1, k2]
    por = [1, 2 if p1 else 1]
    por.append(por[-1] + (1 if p2 else 0))
    out = run_paginate(%d, por, pageby_header, new_page, keys={"g": K, "s": ["S0", "S1", "S2"]})
    if len(out) != por[-1]:
        return False
    for i, pg in enumerate(out):
        rows = [j for j, p in enumerate(por) if p == i + 1]
        info = pg.pageby_header_info
        if not info or list(info["group_values"].items()) != [("g", K[rows[0]])]:
            return False
        exp = [(j, j - rows[0], K[j]) for j in rows[1:] if K[j] != K[j - 1]]
        got = [(b["absolute_row"], b["page_relative_row"], b["group_values"].get("g")) for b in (pg.group_boundaries or [])]
        if got != exp:
            return False
        if %d == 2 and (not pg.subline_header or list(pg.subline_header["group_values"].items()) != [("s", "S%%d" %% rows[0])]):
            return False
    return True
''' % (which, which),
            funcs=["rtflite.pagination.strategies.grouping:PageByStrategy.paginate", "rtflite.pagination.strategies.grouping:SublineStrategy.paginate",
                   "rtflite.pagination.strategies.grouping:PageByStrategy._get_group_headers",
                   "rtflite.pagination.strategies.grouping:PageByStrategy._detect_group_boundaries"],
            stubs=["polars -> vf.minipl model", "calculate_row_metadata -> given page assignment", "PageContext -> recording namespace"],
            bounds="3 rows on 1..3 pages (symbolic break positions), symbolic one-character page_by keys, pageby_header/new_page symbolic",
            what="every page (first or continuation, whatever pageby_header) carries the heading values of its first row, the "
                 "in-page group boundaries of its own rows, and with subline_by the subline heading of its first row"))
    # O8: a logical page fits its physical page (otherwise the rows that spill over sit under no heading): the page budget with
    # continuation headings, shared with C03-O1
    from .C03 import build as c03_build
    for ob in c03_build(tier, seed)[0]:
        if ob.oid in ("O1.n2", "O1.n3"):
            ob.oid = "O8.page_budget." + ob.oid.split(".")[1]
            obs.append(ob)
    meta = {
        "explanation": "Group headings are decided on the real functions with symbolic group values: _get_group_headers, the "
                       "hierarchical loop of _render_body (expected token sequence computed from the statement), render() step 7, "
                       "and the chained metadata -> assign -> headers/boundaries -> render pipeline on symbolic keys with unbounded "
                       "nrow, which shows every data row under its own group's heading on its page and no stranded heading.",
        "outside": ["spanning-row formatting attributes", "pageby_header (C06)", "three nested levels in the chained harness"],
        "assumptions": ["FakeFrame indexing equals polars indexing"],
    }
    return obs, meta
