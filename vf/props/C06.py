"""C06 - titles, headers, footnotes and sources appear on exactly the configured pages."""
import itertools

from ..runner import Ob
from ._pag import HDR

PLACES = ["first", "last", "all"]

HDR6 = HDR + r'''
from rtflite.pagination.processor import PageFeatureProcessor
from rtflite.encoding.unified_encoder import UnifiedRTFEncoder
import rtflite.encoding.unified_encoder as ue
KEYS = ["first", "last", "all", "bogus", ""]

def shows(k, first, last):
    return k == "all" or (k == "first" and first) or (k == "last" and last)

class TokenEncDoc(TokenEnc):
    """document-level encoders as role tokens (balanced, distinct)"""
    def encode_document_start(self): return "{START"
    def encode_font_table(self): return "{FONTS}"
    def encode_color_table(self, document=None, used_colors=None): return "{COLORS}"
    def encode_page_header(self, cfg, method="line"): return "{HEADER}" if (cfg is not None and cfg.text) else ""
    def encode_page_footer(self, cfg, method="line"): return "{FOOTER}" if (cfg is not None and cfg.text) else ""
    def encode_page_settings(self, page): return "SETTINGS"
    def encode_title(self, t, method="line"): return "TITLE" if (t and t.text) else ""
    def encode_subline(self, t, method="line"): return "SUBLINE" if (t is not None and t.text) else ""
    def encode_footnote(self, f, page_number=None, page_col_width=None, border_style=None):
        return [] if f is None else ["FOOTNOTE"]
    def encode_source(self, s, page_number=None, page_col_width=None, border_style=None):
        return [] if s is None else ["SOURCE"]
'''


RENDER_BODY = r'''    pt, pf, ps = %r, %r, %r
    r = token_renderer()
    r._render_column_headers = lambda d, p: ["HEADER"]
    r._render_body = lambda d, p: ["BODY"]
    doc = NS(rtf_title=NS(text=["t"]) if title else None, rtf_subline=NS(text=["s"]) if subl else None,
             rtf_page=NS(page_title=pt, page_footnote=pf, page_source=ps, col_width=6.0),
             rtf_figure=None if figs == 0 else NS(figures=["f.png"], fig_pos="before" if figs == 1 else "after"),
             rtf_column_header=[object()] if has_hdr else [],
             rtf_body=NS(new_page=False, pageby_row="column", page_by=None),
             rtf_footnote=None if fn == 0 else NS(text="f", as_table=(fn == 1)),
             rtf_source=None if src == 0 else NS(text="s", as_table=(src == 1)), df=None)
    page = NS(is_first_page=first, is_last_page=last, subline_header={"group_values": {"s": "G"}} if sub_hdr else None,
              needs_header=needs_header, pageby_header_info=None, component_borders={}, page_number=1)
    out = []
    for x in PageRenderer.render(r, doc, page):
        if x == "\n":
            continue
        if isinstance(x, tuple):
            x = x[0]
        elif x.startswith("{\\pard"):
            x = "SUBHDR"
        out.append(x)
    exp = []
    if not first:
        exp.append("BREAK")
    if title and shows(pt, first, last):
        exp.append("TITLE")
    if subl and shows(pt, first, last):
        exp.append("SUBLINE")
    if sub_hdr:
        exp.append("SUBHDR")
    if figs == 1 and first:
        exp.append("FIG")
    if needs_header and has_hdr:
        exp.append("HEADER")
    exp.append("BODY")
    if fn and shows(pf, first, last):
        exp.append("FOOTNOTE")
    if src and shows(ps, first, last):
        exp.append("SOURCE")
    if figs == 2 and last:
        exp.append("FIG")
    return out == exp
'''


def build(tier, seed):
    quick = tier == "quick"
    T = 240 if quick else 600
    obs = []
    # O1: placement predicates
    obs.append(Ob(
        oid="O1.should_show", sig="k: int, first: bool, last: bool", pre=["0 <= k <= 4"], header=HDR6, timeout=T,
        body=r'''
    page = NS(is_first_page=first, is_last_page=last)
    want = shows(KEYS[k], first, last)
    a = PageRenderer._should_show(NS.of(PageRenderer), KEYS[k], page)
    b = PageFeatureProcessor._should_show_element(NS.of(PageFeatureProcessor), KEYS[k], page)
    return bool(a) == want and bool(b) == want
''',
        funcs=["rtflite.encoding.renderer:PageRenderer._should_show", "rtflite.pagination.processor:PageFeatureProcessor._should_show_element"],
        bounds="keyword in {first,last,all,bogus,''} x first x last", what="first/last/all truth table; unknown keyword => never shown"))
    # O2: order and presence of the page blocks.  thorough: the full product, partitioned on the 27 placement-keyword
    # combinations.  quick: the upper half (break..column headers) and the lower half (body..figure-after) of the page
    # separately - the two halves share no control flow in render() - partitioned on the keywords they depend on.
    ALL = ["first: bool", "last: bool", "title: bool", "subl: bool", "fn: int", "src: int", "needs_header: bool",
           "has_hdr: bool", "sub_hdr: bool", "figs: int"]

    def render_ob(oid, pt, pf, ps, fixed, note):
        sig = ", ".join(a for a in ALL if a.split(":")[0] not in fixed)
        pre = [p for p, k in (("0 <= fn <= 2", "fn"), ("0 <= src <= 2", "src"), ("0 <= figs <= 2", "figs")) if k not in fixed]
        consts = "".join("    %s = %r\n" % kv for kv in fixed.items())
        return Ob(oid=oid, sig=sig, pre=pre, header=HDR6, timeout=T,
                  body="\n" + consts + RENDER_BODY % (PLACES[pt], PLACES[pf], PLACES[ps]),
                  funcs=["rtflite.encoding.renderer:PageRenderer.render", "rtflite.encoding.renderer:PageRenderer._should_show"],
                  stubs=["encoding/document/figure services -> role tokens", "_render_body/_render_column_headers -> one token each"],
                  bounds="page_title=%s page_footnote=%s page_source=%s; %s" % (PLACES[pt], PLACES[pf], PLACES[ps], note),
                  what="blocks appear in the order break?, title, subline, subline heading, figure-before, column headers, body, "
                       "footnote, source, figure-after; each present iff its predicate holds; the break iff not the first page")

    if quick:
        for pt in range(3):
            obs.append(render_ob("O2.render.top.%s" % PLACES[pt], pt, 1, 1, {"fn": 0, "src": 0},
                                 "upper half: first/last, title, subline, subline heading, figure position, needs_header, "
                                 "header presence symbolic; footnote/source absent"))
        for pf, ps in itertools.product(range(3), repeat=2):
            obs.append(render_ob("O2.render.bottom.%s_%s" % (PLACES[pf], PLACES[ps]), 2, pf, ps,
                                 {"title": False, "subl": False, "sub_hdr": False, "needs_header": True, "has_hdr": True},
                                 "lower half: first/last, footnote and source in absent|table|paragraph, figure position symbolic; "
                                 "title/subline absent"))
    else:
        for pt, pf, ps in itertools.product(range(3), repeat=3):
            obs.append(render_ob("O2.render.%s_%s_%s" % (PLACES[pt], PLACES[pf], PLACES[ps]), pt, pf, ps, {},
                                 "all 10 presence/position flags symbolic"))
    # O3: figure-only documents
    for nfig in ((1, 2, 3) if quick else (1, 2, 3, 4)):
        obs.append(Ob(
            oid="O3.figure_only.n%d" % nfig, sig="pt: int, pf: int, ps: int, title: bool, fn: bool, src: bool, subl: bool",
            pre=["0 <= pt <= 2 and 0 <= pf <= 2 and 0 <= ps <= 2"], header=HDR6, timeout=T,
            body=r'''
    n = %d
    me = UnifiedRTFEncoder.__new__(UnifiedRTFEncoder)
    me.encoding_service = TokenEncDoc()
    me.figure_service = NS(_get_dimension=lambda d, i: 5.0,
                           _encode_single_figure=lambda data, fmt, w, h, align: "FIG%%d" %% data)
    import rtflite.figure as figmod
    saved = swapped((figmod.rtf_read_figure, lambda paths: (list(range(len(paths))), ["png"] * len(paths))))
    saved.__enter__()
    try:
        doc = NS(rtf_figure=NS(figures=["f"] * n, fig_width=[5.0], fig_height=[5.0], fig_align="center"),
                 rtf_title=NS(text=["t"]) if title else None, rtf_subline=NS(text=["s"]) if subl else None,
                 rtf_footnote=NS(text="f", as_table=False) if fn else None,
                 rtf_source=NS(text="s", as_table=False) if src else None,
                 rtf_page=NS(page_title=KEYS[pt], page_footnote=KEYS[pf], page_source=KEYS[ps], col_width=6.0),
                 rtf_page_header=None, rtf_page_footer=None)
        import copy
        out = me._encode_figure_only(doc)
    finally:
        saved.__exit__()
    body = out[out.index("SETTINGS") + len("SETTINGS"):]
    if not body.endswith("\n\n}"):
        return False
    body = body[:-3]
    pages = body.split("\\page ")
    if len(pages) != n:
        return False
    for i, pg in enumerate(pages):
        first, last = i == 0, i == n - 1
        exp = ""
        if shows(KEYS[pt], first, last):
            exp += ("TITLE" if title else "") + "\n"
        if first and subl:
            exp += "SUBLINE"
        exp += "FIG%%d" %% i + "\\par "
        if fn and shows(KEYS[pf], first, last):
            exp += "FOOTNOTE"
        if src and shows(KEYS[ps], first, last):
            exp += "SOURCE"
        if pg != exp:
            return False
    return True
''' % nfig,
            funcs=["rtflite.encoding.unified_encoder:UnifiedRTFEncoder._encode_figure_only"],
            stubs=["rtf_read_figure -> figure index tokens", "encoding/figure services -> role tokens"],
            bounds="%d figures; the three placement keywords symbolic; title/subline/footnote/source presence symbolic" % nfig,
            what="one figure per page in order, one \\page between figures and none after the last; title/footnote/source exactly "
                 "on the pages their placement option selects"))
    # O4: page geometry restated at every break (engine B, bit-exact doubles)
    obs.append(Ob(oid="O4.page_geometry", kind="py", target="vf.engb_obs:page_geometry", kwargs={"tier": tier, "seed": seed}, timeout=T,
                  funcs=["rtflite.services.encoding_service:RTFEncodingService.encode_page_break",
                         "rtflite.services.encoding_service:RTFEncodingService.encode_page_margin",
                         "rtflite.rtf.syntax:RTFSyntaxGenerator.generate_page_settings",
                         "rtflite.core.constants:RTFMeasurements.inch_to_twip"],
                  stubs=["int/round/sum/max/min in the traced modules -> shims that keep proxy numbers"],
                  bounds="width, height in [1,60] in, six margins in [0,10] in, as IEEE-754 doubles (QF_FP, bit exact)",
                  what="\\paperw \\paperh \\margl \\margr \\margt \\margb \\headery \\footery after a page break equal those of the "
                       "document start and both equal round(inches*1440); \\landscape iff landscape"))
    # O5: document skeleton defines page header and footer exactly once
    obs.append(Ob(
        oid="O5.header_footer_once", sig="hdr: int, ftr: int, chunks: int", pre=["0 <= hdr <= 2 and 0 <= ftr <= 2 and 0 <= chunks <= 3"],
        header=HDR6, timeout=T,
        body=r'''
    me = UnifiedRTFEncoder.__new__(UnifiedRTFEncoder)
    me.encoding_service = TokenEncDoc()
    me._encode_body_section = lambda d, df, b: ["CHUNK%d" % i for i in range(chunks)]
    def mk(k):
        return None if k == 0 else NS(text=["x"] if k == 1 else None, text_color=None, text_background_color=None)
    doc = NS(df=object(), rtf_body=None, rtf_page_header=mk(hdr), rtf_page_footer=mk(ftr), rtf_page=None, rtf_title=None,
             rtf_subline=None, rtf_footnote=None, rtf_source=None, rtf_column_header=[])
    out = me.encode(doc)
    return (out.count("{HEADER}") == (1 if hdr == 1 else 0) and out.count("{FOOTER}") == (1 if ftr == 1 else 0)
            and out.startswith("{START") and out.endswith("}") and out.count("SETTINGS") == 1
            and out.index("SETTINGS") < (out.index("CHUNK0") if chunks else len(out)))
''',
        funcs=["rtflite.encoding.unified_encoder:UnifiedRTFEncoder.encode"],
        stubs=["encoding service -> role tokens", "_encode_body_section -> chunk tokens", "colour context setter -> no-op"],
        bounds="page header/footer in absent|text|no text; 0..3 body chunks",
        what="exactly one {\\header} and one {\\footer} group when configured with text, none otherwise, before the page content"))
    # O6: needs_header = pageby_header or first page (the three paginate() methods on the polars model)
    for which in (0, 1, 2):
        obs.append(Ob(
            oid="O6.needs_header.%s" % ["default", "page_by", "subline"][which],
            sig="pageby_header: bool, p1: bool, p2: bool", pre=[], header=HDR6 + "from vf.h_paginate import run_paginate\n", timeout=T,
            body=r'''
    pages_of_rows = [1, 2 if p1 else 1]
    pages_of_rows.append(pages_of_rows[-1] + (1 if p2 else 0))
    out = run_paginate(%d, pages_of_rows, pageby_header)
    npages = pages_of_rows[-1]
    if len(out) != npages:
        return False
    for i, pg in enumerate(out):
        if pg.page_number != i + 1 or pg.is_first_page != (i == 0) or pg.is_last_page != (i == npages - 1):
            return False
        if bool(pg.needs_header) != (pageby_header or i == 0):
            return False
        rows = [j for j, p in enumerate(pages_of_rows) if p == i + 1]
        if pg.data.to_dicts() != [{"g": "G%%d" %% j, "s": "S%%d" %% j, "v": "r%%d" %% j} for j in rows]:
            return False
    return True
''' % which,
            funcs=["rtflite.pagination.strategies.defaults:DefaultPaginationStrategy.paginate",
                   "rtflite.pagination.strategies.grouping:PageByStrategy.paginate",
                   "rtflite.pagination.strategies.grouping:SublineStrategy.paginate"],
            stubs=["polars -> vf.minipl model (Series/Expr/filter/slice) substituted in sys.modules during the call",
                   "calculate_row_metadata -> given page assignment", "PageContext/RTFPagination -> recording namespaces"],
            bounds="3 rows assigned to 1..3 pages (symbolic break positions), pageby_header symbolic",
            what="every page after the first carries column headers exactly when pageby_header is true; pages are numbered 1.., "
                 "first/last flags correct, each page holds exactly its own rows"))
    meta = {
        "explanation": "Placement is decided on the real control flow: the two placement predicates over their whole truth table, "
                       "PageRenderer.render with role-token services for all 27 placement-keyword combinations x 10 symbolic "
                       "presence flags (expected block sequence computed from the statement), the figure-only encoder for 1..3 "
                       "figures, the document skeleton's header/footer groups, the three paginate() methods on a polars model, and "
                       "- bit-exactly in IEEE-754 doubles via engine B - that every page break restates the paper size and margins "
                       "of the document start for all widths/heights/margins in range.",
        "outside": ["documents of more than the stated pages/figures", "subline placement in figure documents (the figure path shows the "
                    "subline on the first page only; the statement's figure clause covers title, footnote and source)"],
        "assumptions": ["role-token services stand for the real component encoders, whose output is checked by C01/C10"],
    }
    return obs, meta
