"""C08 - all rows of a table share one right edge and proportional columns."""
from ..runner import Ob
from ._pag import glue_ob, prep_ob

HDR8 = r'''
from vf.hlib import NS, pick, concrete_int, with_tc
from vf import minipl
import re
import rtflite as rtf
from rtflite.row import Utils
from rtflite.services.encoding_service import RTFEncodingService
SVC = RTFEncodingService()
GRID = [2.0, 2.5, 3.125, 4.0, 5.25, 6.0, 6.25, 7.5, 8.5, 9.0, 10.875, 12.0]     # k/8 inches: w*1440 is exact
def cellx(out):
    return [int(x) for x in re.findall(r"\\cellx(-?\d+)", "".join(out))]
'''


def build(tier, seed):
    quick = tier == "quick"
    T = 240 if quick else 900
    obs = []
    for n in ((1, 2, 3, 4, 6) if quick else (1, 2, 3, 4, 5, 6, 8, 10, 12)):
        obs.append(Ob(oid="O1.col_widths.n%d" % n, kind="py", target="vf.engb_obs:col_widths", kwargs={"n": n, "tier": tier, "seed": seed},
                      timeout=T, funcs=["rtflite.row:Utils._col_widths"],
                      bounds="%d columns, relative widths in [0.2,10], table width in [2,12] in, exact real arithmetic (every real, not a "
                             "grid); floating-point rounding of the 3n operations (< 1e-9 twip) excluded" % n,
                      what="cumulative boundaries are strictly increasing, boundary_i * sum(rel) = W * sum(rel[:i+1]) (proportional), and "
                           "the last boundary equals the table width"))
    obs.append(Ob(oid="O2.twip_lemmas", kind="py", target="vf.engb_obs:twip_lemmas", kwargs={"tier": tier, "seed": seed}, timeout=max(T, 400),
                  funcs=["rtflite.core.constants:RTFMeasurements.inch_to_twip"],
                  bounds="x in [0,60] in as IEEE-754 doubles", what="inch_to_twip(x) is the integer nearest to fl(1440 x) (|diff| <= 1/2), "
                  ">= 1 from 1/1440 in upwards%s" % ("" if quick else ", and monotone (cvc5)")))
    # O3: spanning row = one cell ending at the table width
    obs.append(Ob(
        oid="O3.spanning_row", sig="g: int", pre=["0 <= g <= 11"], header=HDR8, timeout=T,
        body=r'''
    w = pick(GRID, g)
    out = SVC.encode_spanning_row(text="Group", page_width=w, rtf_body_attrs=rtf.RTFBody())
    return cellx(out) == [int(w * 8) * 180] and "".join(out).count("\\cell") - "".join(out).count("\\cellx") == 1
''',
        funcs=["rtflite.services.encoding_service:RTFEncodingService.encode_spanning_row", "rtflite.row:Cell._as_rtf"],
        bounds="table width from a grid of 12 values k/8 in (solver-enumerated: the width passes through pydantic-core; all widths: O2)",
        what="a group heading is one cell whose right boundary is the table width in twips"))
    # O4: header boundaries
    obs.append(Ob(
        oid="O4.header_boundaries", sig="mode: int, removed: int, first: bool, g: int", pre=["0 <= mode <= 2", "0 <= removed <= 2", "0 <= g <= 11"],
        header=HDR8 + r'''
from rtflite.encoding.renderer import PageRenderer
from vf.fakes import FakeFrame
''', timeout=T,
        body=r'''
    w = pick(GRID, g)
    k = concrete_int(removed, 0, 2)
    ncol = 4
    shown = ncol - k
    body_w = [1.0, 2.0, 3.0, 4.0]
    disp_w = body_w[k:]                      # the first k columns were consumed by page_by / subline_by
    # header: 0 = own widths for the displayed columns, 1 = inherited from the body at construction, 2 = auto text + inherited
    hw = [2.0, 1.0, 1.0, 1.0][:shown] if mode == 0 else list(body_w)
    hdr = rtf.RTFColumnHeader(text=None if mode == 2 else ["h%d" % j for j in range(shown)], col_rel_width=hw)
    seen = []
    r = PageRenderer.__new__(PageRenderer)
    real = RTFEncodingService()
    class Rec(RTFEncodingService):
        def encode_column_header(self, df, attrs, page_col_width):
            cw = Utils._col_widths(attrs.col_rel_width or [1] * shown, page_col_width)
            seen.append((list(df.columns) if hasattr(df, "columns") else list(df), cw))
            return ["HROW"]
    r.encoding_service = Rec()
    import rtflite.encoding.renderer as rmod
    saved = minipl.substituted()
    saved.__enter__()
    try:
        doc = NS(rtf_column_header=[hdr], rtf_body=NS(as_colheader=True, col_rel_width=body_w), rtf_page=NS(border_first="double", col_width=w))
        page = NS(is_first_page=first, data=minipl.Frame({"c%d" % j: ["x"] for j in range(k, ncol)}), table_attrs=NS(col_rel_width=disp_w))
        out = PageRenderer._render_column_headers(r, doc, page)
    finally:
        saved.__exit__()
    if out != ["HROW"] or len(seen) != 1:
        return False
    cells, cw = seen[0]
    want = hw if mode == 0 else disp_w
    tot = sum(want)
    ok = len(cw) >= shown and abs(cw[shown - 1] - w) < 1e-9
    acc = 0.0
    for j in range(shown):
        acc += want[j] * w / tot
        ok = ok and abs(cw[j] - acc) < 1e-9
    return ok and hdr.col_rel_width == hw
''',
        funcs=["rtflite.encoding.renderer:PageRenderer._render_column_headers", "rtflite.row:Utils._col_widths"],
        stubs=["encode_column_header -> recorder computing the boundaries it would use", "polars -> vf.minipl model", "page/document -> namespaces"],
        bounds="4-column body 1:2:3:4 with the first 0..2 columns removed from the display; header with own widths | widths inherited "
               "from the body | auto text with inherited widths; table width from the grid",
        what="a header row has one boundary per displayed column, the last one at the table width; inherited widths line up cell by "
             "cell with the displayed data columns"))
    # O5: table-rendered footnote / source end at the table width
    for comp in ("footnote", "source"):
        obs.append(Ob(
            oid="O5.%s_row" % comp, sig="g: int", pre=["0 <= g <= 11"], header=HDR8, timeout=T,
            body=r'''
    w = pick(GRID, g)
    c = (rtf.RTFFootnote if %r == "footnote" else rtf.RTFSource)(text="note", as_table=True)
    fn = SVC.encode_footnote if %r == "footnote" else SVC.encode_source
    with minipl.substituted():
        out = fn(c, page_number=1, page_col_width=w)
    return cellx(out) == [int(w * 8) * 180]
''' % (comp, comp),
            funcs=["rtflite.services.encoding_service:RTFEncodingService.encode_%s" % comp], stubs=["polars -> vf.minipl model (one-cell frame)"],
            bounds="table width from the grid of 12 values", what="a table-rendered %s is one cell ending at the table width" % comp))
    obs.append(prep_ob("O6.width_slicing", T))
    # O7: data rows through Row/Cell: boundaries are the twips of the cumulative widths
    obs.append(Ob(
        oid="O7.data_row_boundaries", sig="g: int, n: int", pre=["0 <= g <= 11", "1 <= n <= 4"], header=HDR8 + "from vf.fakes import FakeFrame\nimport rtflite.attributes as attributes\nBODY = rtf.RTFBody()\n", timeout=T,
        body=r'''
    w = pick(GRID, g)
    nn = concrete_int(n, 1, 4)
    rel = [1.0, 2.0, 1.0, 4.0][:nn]
    cw = Utils._col_widths(rel, w)
    df = FakeFrame({"c%d" % j: ["x", "y"] for j in range(nn)})
    out = with_tc(lambda: attributes.TableAttributes._encode(BODY, df, cw))
    cx = cellx(out)
    ok = len(cx) == 2 * nn
    for r in range(2):
        row = cx[r * nn:(r + 1) * nn]
        ok = ok and row == [round(x * 1440) for x in cw] and row[-1] == int(w * 8) * 180
        ok = ok and all(row[j] < row[j + 1] for j in range(nn - 1))
    return ok
''',
        funcs=["rtflite.attributes:TableAttributes._encode", "rtflite.row:Row._as_rtf", "rtflite.row:Cell._as_rtf", "rtflite.row:Utils._col_widths"],
        stubs=["data frame -> FakeFrame", "TextContent -> model_construct"],
        bounds="1..4 columns 1:2:1:4, 2 rows, table width from the grid", what="every data row declares the boundaries round(1440 * "
        "cumulative width), strictly increasing, the last equal to the table width in twips"))
    # O8: a body shared with an earlier document of another column count
    obs.append(Ob(
        oid="O8.shared_components", sig="bw: int, hw: bool", pre=["0 <= bw <= 1"],
        header="import polars as pl\nimport rtflite as rtf\nDF3 = pl.DataFrame({'a': ['1'], 'b': ['2'], 'c': ['3']})\nDF2 = pl.DataFrame({'x': ['1'], 'y': ['2']})\n",
        timeout=T,
        body=r'''
    body = rtf.RTFBody(col_rel_width=None if bw == 0 else [2.0])
    hdr = rtf.RTFColumnHeader()
    rtf.RTFDocument(df=DF3, rtf_body=body, rtf_column_header=[hdr])
    d2 = rtf.RTFDocument(df=DF2, rtf_body=body, rtf_column_header=[hdr] if hw else [rtf.RTFColumnHeader()])
    want = [1, 1] if bw == 0 else [2.0, 2.0]
    ok = list(d2.rtf_body.col_rel_width) == want and list(d2.rtf_column_header[0].col_rel_width) == want
    # one body / header object given for two sections of different column counts: each section resolves its own widths
    b2 = rtf.RTFBody(col_rel_width=None if bw == 0 else [2.0])
    h2 = rtf.RTFColumnHeader()
    dm = rtf.RTFDocument(df=[DF3, DF2], rtf_body=[b2, b2], rtf_column_header=[[h2], [h2] if hw else [rtf.RTFColumnHeader()]])
    w3 = [1, 1, 1] if bw == 0 else [2.0, 2.0, 2.0]
    ok = ok and [list(b.col_rel_width) for b in dm.rtf_body] == [w3, want]
    ok = ok and [list(hs[0].col_rel_width) for hs in dm.rtf_column_header] == [w3, want]
    return ok
''',
        funcs=["rtflite.encode:RTFDocument.__init__"],
        bounds="a body (col_rel_width unset or one broadcast value) and a default header first used by a 3-column document, then by a "
               "2-column document; and one body/header object given for both sections (3 and 2 columns) of one document",
        what="configuration objects used by an earlier document - or by an earlier section of the same document - give the later one "
             "the widths a fresh object would"))
    # O9: the section glue hands every page - also the fallback page of an empty table - the displayed columns' widths and attributes
    obs.append(glue_ob("O9.section_glue", T))
    meta = {
        "explanation": "Column geometry is decided in exact real arithmetic on a trace of the real Utils._col_widths (engine B: every "
                       "real width vector, not a grid), the inch->twip conversion bit-exactly in IEEE doubles, and the row emitters "
                       "(spanning row, header boundaries incl. inherited widths after column removal, footnote/source rows, data "
                       "rows, width slicing, shared components) symbolically with CrossHair over their configuration space.",
        "outside": ["floating-point rounding inside _col_widths beyond the 1e-9-twip band", "more than 12 columns", "multi-section "
                    "documents with different column counts (each section goes through the same kernels)"],
        "assumptions": ["table widths on the k/8-inch grid in the CrossHair obligations (the value passes through pydantic-core); all "
                        "real widths in O1/O2"],
    }
    return obs, meta
