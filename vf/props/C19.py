"""C19 - invalid configuration is rejected up front with ValueError."""
from ..runner import Ob

HDRV = r'''
from vf.hlib import NS, pick, concrete_int
from vf.h_valid import *
import rtflite as rtf
from rtflite.attributes import _to_nested_list
CLS = {"RTFBody": rtf.RTFBody, "RTFColumnHeader": rtf.RTFColumnHeader, "RTFFootnote": rtf.RTFFootnote, "RTFSource": rtf.RTFSource,
       "RTFTitle": rtf.RTFTitle, "RTFSubline": rtf.RTFSubline, "RTFPageHeader": rtf.RTFPageHeader, "RTFPageFooter": rtf.RTFPageFooter}
'''
TABLE_CLASSES = ["RTFBody", "RTFColumnHeader", "RTFFootnote", "RTFSource"]
TEXT_CLASSES = ["RTFTitle", "RTFSubline", "RTFPageHeader", "RTFPageFooter"]


def build(tier, seed):
    from .. import h_valid as hv
    quick = tier == "quick"
    T = 240 if quick else 900
    obs = []
    tcls = ["RTFBody"] if quick else TABLE_CLASSES
    xcls = ["RTFTitle"] if quick else TEXT_CLASSES
    # O1: candidate strings at every position of a 1x3 row and of a 2x2 matrix
    for cname in tcls + xcls:
        table = cname in TABLE_CLASSES
        for kind, (fields, cand, nlegal) in hv.KINDS.items():
            if not table:
                if kind not in hv.TEXT_ONLY:
                    continue
                fields = hv.TEXT_ONLY[kind]
            if quick:
                # legal representatives (always incl. the empty value when legal) + two illegal ones
                legal_c = [c for c in cand[:nlegal] if c == ""] + [c for c in cand[:nlegal] if c != ""][:2]
                cand_q = legal_c + cand[nlegal:nlegal + 2]
                nlegal_q = len(legal_c)
            else:
                cand_q, nlegal_q = cand, nlegal
            obs.append(Ob(
                oid="O1.%s.%s.row" % (cname, kind), sig="fi: int, e0: int, e: int, pos: int",
                pre=["0 <= fi < %d" % len(fields), "0 <= e0 < %d and 0 <= e < %d" % (len(cand_q), len(cand_q)), "1 <= pos <= 2"],
                header=HDRV, timeout=T,
                body=r'''
    fields, cand, nlegal = %r, %r, %d
    row = [pick(cand, e0), cand[1], cand[1]]
    row[concrete_int(pos, 1, 2)] = pick(cand, e)
    got = outcome(lambda: run_validators(CLS[%r], pick(fields, fi), row))
    return got == ("ok" if (e0 < nlegal and e < nlegal) else "ValueError")
''' % (fields, cand_q, nlegal_q, cname),
                funcs=["rtflite.attributes:TextAttributes.validate_text_color", "rtflite.attributes:TextAttributes.validate_text_format",
                       "rtflite.attributes:TextAttributes.validate_text_justification", "rtflite.attributes:TableAttributes.validate_border",
                       "rtflite.attributes:TableAttributes.validate_border_colors", "rtflite.attributes:TableAttributes.validate_cell_justification",
                       "rtflite.attributes:TableAttributes.validate_cell_vertical_justification", "rtflite.attributes:_to_nested_list"],
                stubs=["pydantic-core type coercion between before- and after-validators is skipped (values are already of the field type)"],
                bounds="%s fields %s (symbolic); a row of 3 values: any candidate of %s (first %d legal) at position 0 and at a symbolic "
                       "later position" % (cname, fields, cand_q, nlegal_q),
                what="the validators of the field raise ValueError iff some element is illegal, wherever it sits (also after an empty "
                     "'no value' entry), and never another exception type"))
            if table:
                obs.append(Ob(
                    oid="O1.%s.%s.matrix" % (cname, kind), sig="fi: int, e: int, r: int, c: int",
                    pre=["0 <= fi < %d" % len(fields), "0 <= e < %d" % len(cand), "0 <= r <= 1 and 0 <= c <= 1"], header=HDRV, timeout=T,
                    body=r'''
    fields, cand, nlegal = %r, %r, %d
    m = [[cand[0], cand[1]], [cand[1], cand[0]]]
    m[concrete_int(r, 0, 1)][concrete_int(c, 0, 1)] = pick(cand, e)
    got = outcome(lambda: run_validators(CLS[%r], pick(fields, fi), m))
    return got == ("ok" if e < nlegal else "ValueError")
''' % (fields, cand, nlegal, cname),
                    funcs=["rtflite.attributes:TableAttributes.validate_border", "rtflite.attributes:TableAttributes.validate_border_colors"],
                    bounds="%s fields %s; 2x2 matrix with one candidate at a symbolic position" % (cname, fields),
                    what="an illegal value anywhere in a matrix attribute is rejected with ValueError"))
        for kind, (fields, legal, div) in hv.NUMERIC.items():
            if not table and kind == "positive":
                continue
            obs.append(Ob(
                oid="O1.%s.%s" % (cname, kind), sig="fi: int, n: int, pos: int, nested: bool",
                pre=["0 <= fi < %d" % len(fields), "-6 <= n <= 24", "0 <= pos <= 2"], header=HDRV, timeout=T,
                body=r'''
    fields = %r
    v = concrete_int(n, -6, 24)
    if %d > 1:
        v = v / 2
    vals = [1, 2, 3]
    vals[concrete_int(pos, 0, 2)] = v
    field = pick(fields, fi)
    value = [vals[:2], [vals[2], vals[0]]] if (nested and field != "col_rel_width") else vals
    got = outcome(lambda: run_validators(CLS[%r], field, value))
    return got == ("ok" if (%s) else "ValueError")
''' % (fields, div, cname, legal),
                funcs=["rtflite.attributes:TextAttributes.validate_text_font", "rtflite.attributes:TextAttributes.validate_text_font_size",
                       "rtflite.attributes:TableAttributes.validate_positive_value"],
                bounds="%s fields %s (symbolic); one symbolic number (%s in [-6,24]%s, solver-enumerated) at a symbolic position of a 3-vector or 2x2 matrix "
                       "of legal values" % (cname, fields, "integer" if div == 1 else "integer or half", "" if div == 1 else "/2"),
                what="legal iff the number satisfies %s; otherwise ValueError and no other exception type" % legal))
    # O2: page, body and figure validators through the public constructors
    obs.append(Ob(
        oid="O2.page", sig="which: int, n: int, k: int", pre=["0 <= which <= 7", "-3 <= n <= 9", "0 <= k <= 4"], header=HDRV + r'''
NUMS = list(range(-3, 10))
HALF = [x / 2.0 for x in range(-3, 10)]
ORI = ["portrait", "landscape", "Portrait", "", "upside"]
PLC = ["first", "last", "all", "", "none"]
BRD = ["double", "", "single", "dbl", "Double"]
''', timeout=T,
        body=r'''
    if which == 0:
        got, legal = outcome(lambda: rtf.RTFPage(orientation=pick(ORI, k))), k < 2
    elif which == 1:
        m = concrete_int(max(n, 0), 0, 9)
        got, legal = outcome(lambda: rtf.RTFPage(margin=[1.0] * m)), m == 6
    elif which == 2:
        got, legal = outcome(lambda: rtf.RTFPage(page_title=pick(PLC, k))), k < 3
    elif which == 3:
        got, legal = outcome(lambda: rtf.RTFPage(page_footnote=pick(PLC, k), page_source=pick(PLC, (k + 1) % 5))), k < 2
    elif which == 4:
        got, legal = outcome(lambda: rtf.RTFPage(border_first=pick(BRD, k), border_last=pick(BRD, (k + 1) % 3))), k < 3
    elif which == 5:
        got, legal = outcome(lambda: rtf.RTFPage(nrow=concrete_int(n, -3, 9))), n > 0
    elif which == 6:
        got, legal = outcome(lambda: rtf.RTFPage(width=concrete_int(n, -3, 9) / 2.0, height=11)), n > 0
    else:
        got, legal = outcome(lambda: rtf.RTFPage(col_width=concrete_int(n, -3, 9) / 2.0)), n > 0
    return got == ("ok" if legal else "ValueError")
''',
        funcs=["rtflite.input:RTFPage.validate_orientation", "rtflite.input:RTFPage.validate_margin", "rtflite.input:RTFPage.validate_border",
               "rtflite.input:RTFPage.validate_page_placement", "rtflite.input:RTFPage.validate_width_height", "rtflite.input:RTFPage._set_default"],
        bounds="orientation / placement / border candidates, margin length 0..9, nrow/width/col_width from -3..9 (halves)",
        what="RTFPage rejects an unknown orientation, placement keyword or border style, a margin list not of length 6 and "
             "non-positive sizes with ValueError (ValidationError included) and accepts the legal values"))
    obs.append(Ob(
        oid="O2.body_figure", sig="which: int, k: int, flag: bool, sflag: bool, gflag: bool", pre=["0 <= which <= 3", "0 <= k <= 3"], header=HDRV + r'''
PBR = ["column", "first_row", "row", ""]
ALN = ["left", "center", "right", "middle"]
POS = ["before", "after", "top", ""]
''', timeout=T,
        body=r'''
    if which == 0:
        got, legal = outcome(lambda: rtf.RTFBody(page_by=["a"], pageby_row=pick(PBR, k))), k < 2
    elif which == 1:
        got, legal = outcome(lambda: rtf.RTFBody(page_by=["a"] if flag else None, subline_by=["s"] if sflag else None,
                                                 group_by=["g"] if gflag else None, new_page=True)), flag
    elif which == 2:
        got, legal = outcome(lambda: rtf.RTFFigure(fig_align=pick(ALN, k), fig_pos=POS[0])), k < 3
    else:
        got, legal = outcome(lambda: rtf.RTFFigure(fig_pos=pick(POS, k))), k < 2
    if got == "FileNotFoundError":
        return False
    return got == ("ok" if legal else "ValueError")
''',
        funcs=["rtflite.input:RTFBody.validate_pageby_row", "rtflite.input:RTFBody._validate_page_by_logic",
               "rtflite.input:RTFFigure.validate_alignment", "rtflite.input:RTFFigure.validate_position"],
        bounds="pageby_row / fig_align / fig_pos candidates; new_page with and without page_by, subline_by, group_by",
        what="RTFBody and RTFFigure reject unknown keywords and new_page without page_by (subline_by or group_by do not replace it)"))
    obs.append(Ob(
        oid="O2.figure_file", sig="exists: bool, asl: bool", pre=[], header=HDRV + r'''
import os
HERE = os.path.dirname(os.path.abspath(__file__))
PRESENT = os.path.join(HERE, "vf_c19_present.png")
MISSING = os.path.join(HERE, "vf_c19_missing.png")
if not os.path.exists(PRESENT):
    with open(PRESENT, "wb") as _f:
        _f.write(b"\x89PNG")
''', timeout=T,
        body=r'''
    p = PRESENT if exists else MISSING
    got = outcome(lambda: rtf.RTFFigure(figures=[p] if asl else p))
    return got == ("ok" if exists else "FileNotFoundError")
''',
        funcs=["rtflite.input:RTFFigure.validate_figure_data"], bounds="figure path existing or missing, given as str or list",
        what="a missing figure file raises FileNotFoundError at construction"))
    # O3: document-level validation on a namespace self
    FD = ["rtflite.encode:RTFDocument.validate_column_names", "rtflite.encode:RTFDocument._validate_section_columns"]
    obs.append(Ob(
        oid="O3.df_or_figure", sig="has_df: bool, has_fig: bool, fnt: bool, srt: bool, has_fn: bool, has_src: bool", pre=[],
        header=HDRV + r'''
from rtflite.encode import RTFDocument
COLS = ["a", "b"]
def names(k):
    return None if k == 0 else (["a"] if k == 1 else ["a", "zz"])
def validate(df, bodies, hdr, fig=None, fnt=False, srt=False):
    me = NS.of(RTFDocument, df=df, rtf_figure=fig, rtf_body=bodies, rtf_footnote=NS(as_table=fnt), rtf_source=NS(as_table=srt), rtf_column_header=hdr)
    return outcome(lambda: RTFDocument.validate_column_names(me))
OKBODY = NS(group_by=None, page_by=None, subline_by=None)
''', timeout=T,
        body=r'''
    me = NS.of(RTFDocument, df=NS(columns=COLS) if has_df else None, rtf_figure=NS() if has_fig else None, rtf_body=OKBODY,
            rtf_footnote=NS(as_table=fnt) if has_fn else None, rtf_source=NS(as_table=srt) if has_src else None, rtf_column_header=[NS()])
    got = outcome(lambda: RTFDocument.validate_column_names(me))
    legal = has_df != has_fig
    if legal and has_fig:
        legal = not (has_fn and fnt) and not (has_src and srt)
    return got == ("ok" if legal else "ValueError")
''',
        funcs=FD, stubs=["RTFDocument self / frame / components -> namespaces"],
        bounds="df and figure presence, footnote/source presence and as_table flags: all symbolic",
        what="both or neither of df and figure, or a table-style footnote/source together with a figure, raise ValueError"))
    obs.append(Ob(
        oid="O3.multi_section_lengths", sig="nb: int, nh: int, nested: bool", pre=["0 <= nb <= 3 and 0 <= nh <= 3"], header=HDRV + r'''
from rtflite.encode import RTFDocument
COLS = ["a", "b"]
def names(k):
    return None if k == 0 else (["a"] if k == 1 else ["a", "zz"])
def validate(df, bodies, hdr, fig=None, fnt=False, srt=False):
    me = NS.of(RTFDocument, df=df, rtf_figure=fig, rtf_body=bodies, rtf_footnote=NS(as_table=fnt), rtf_source=NS(as_table=srt), rtf_column_header=hdr)
    return outcome(lambda: RTFDocument.validate_column_names(me))
OKBODY = NS(group_by=None, page_by=None, subline_by=None)
''', timeout=T,
        body=r'''
    frame = NS(columns=COLS)
    hdr = ([[None]] * nh) if nested else [NS()] * nh
    got = validate([frame, frame], [OKBODY] * nb, hdr)
    legal = nb == 2 and (not nested or nh == 0 or nh == 2)
    got_single_body = validate([frame, frame], OKBODY, [NS()])
    return got == ("ok" if legal else "ValueError") and got_single_body == "ValueError"
''',
        funcs=FD, stubs=["namespaces"], bounds="2 sections; body list of length 0..3 (or a single body); header list nested/flat of length 0..3",
        what="mismatched multi-section list lengths raise ValueError"))
    obs.append(Ob(
        oid="O3.column_names", sig="g: int, p: int, s: int, multi: bool, second: bool", pre=["0 <= g <= 2 and 0 <= p <= 2 and 0 <= s <= 2"],
        header=HDRV + r'''
from rtflite.encode import RTFDocument
COLS = ["a", "b"]
def names(k):
    return None if k == 0 else (["a"] if k == 1 else ["a", "zz"])
def validate(df, bodies, hdr, fig=None, fnt=False, srt=False):
    me = NS.of(RTFDocument, df=df, rtf_figure=fig, rtf_body=bodies, rtf_footnote=NS(as_table=fnt), rtf_source=NS(as_table=srt), rtf_column_header=hdr)
    return outcome(lambda: RTFDocument.validate_column_names(me))
OKBODY = NS(group_by=None, page_by=None, subline_by=None)
''', timeout=T,
        body=r'''
    frame = NS(columns=COLS)
    body = NS(group_by=names(g), page_by=names(p), subline_by=names(s))
    if multi:
        got = validate([frame, frame], [OKBODY, body] if second else [body, OKBODY], [[None], [None]])
    else:
        got = validate(frame, body, [NS()])
    return got == ("ok" if (g != 2 and p != 2 and s != 2) else "ValueError")
''',
        funcs=FD, stubs=["namespaces"],
        bounds="group_by / page_by / subline_by each absent | existing column | a column missing from the data; single section or either "
               "section of a 2-section document",
        what="grouping columns missing from the (section's) data raise ValueError"))
    # O4: the same through the real constructors (pydantic-core included)
    for kind, fields in (("border", ["border_top", "border_last"]), ("color", ["text_color", "border_color_left"]),
                         ("just", ["text_justification", "cell_justification"])):
        cand, nlegal = hv.KINDS[kind][1], hv.KINDS[kind][2]
        for cname in (["RTFBody"] if quick else TABLE_CLASSES):
            obs.append(Ob(
                oid="O4.ctor.%s.%s" % (cname, kind), sig="fi: int, e: int, pos: int, shape: int",
                pre=["0 <= fi < %d" % len(fields), "0 <= e < %d" % len(cand), "0 <= pos <= 2", "0 <= shape <= 2"], header=HDRV, timeout=T,
                body=r'''
    fields, cand, nlegal = %r, %r, %d
    ce, cp = pick(cand, e), concrete_int(pos, 0, 2)
    if shape == 0:
        value = ce
    elif shape == 1:
        value = [cand[0], cand[1], cand[2]]
        value[cp] = ce
    else:
        value = [[cand[0], cand[1]], [cand[1], cand[2]]]
        value[cp %% 2][cp // 2] = ce
    kw = {pick(fields, fi): value}
    if %r in ("RTFFootnote", "RTFSource"):
        kw["text"] = "t"
    got = outcome(lambda: CLS[%r](**kw))
    return got == ("ok" if e < nlegal else "ValueError")
''' % (fields, cand, nlegal, cname, cname),
                funcs=["rtflite.input:RTFBody.__init__", "rtflite.attributes:TableAttributes.convert_to_nested_list"],
                bounds="%s(%s=...) with a scalar, a 3-vector or a 2x2 matrix holding one candidate at a symbolic position" % (cname, "|".join(fields)),
                what="construction raises ValueError (pydantic's ValidationError included) iff the candidate is illegal"))
    meta = {
        "explanation": "Every Python-level validator of the configuration models is executed symbolically, discovered through "
                       "pydantic's decorator registry: values are rows and matrices whose elements range over legal and illegal "
                       "candidates (strings) or symbolic numbers, with symbolic positions and a symbolic field selector; the "
                       "verdict must be ValueError exactly when some element is illegal and never another exception type. Page, "
                       "body, figure and document-level rules are decided through the real constructors / the real model "
                       "validator on namespaces.",
        "outside": ["arbitrary illegal strings beyond the candidate lists (dict-membership tests concretise symbolic strings)",
                    "pydantic-core's own type errors (wrong Python type for a field)", "narwhals conversion of foreign DataFrames"],
        "assumptions": [],
    }
    return obs, meta
