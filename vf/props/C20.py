"""C20 - string width measurement is consistent (wrapper clauses; glyph metrics are FreeType's)."""
from ..runner import Ob

HDR20 = r'''
from vf.hlib import NS, pick, concrete_int
import rtflite.strwidth as sw
from rtflite.fonts_mapping import FontMapping
NAMES = list(FontMapping.get_font_name_to_number_mapping())
PATHS = FontMapping.get_font_paths()
UNITS = ["in", "mm", "px", "cm", "", "IN"]
BOGUS = ["Comic Sans", "", "arial", "Times"]

def fpx(path, size, text):
    """the stub's 'glyph metric': a value that identifies the (font file, size, text) a measurement was made with"""
    if text == "":
        return 0.0          # like FreeType: nothing to measure
    return float(size) * 16 + (sum(ord(c) for c in str(path)[-12:]) % 13) + sum((i + 1) * ord(c) for i, c in enumerate(text)) / 64.0

from vf.hlib import ModuleState
_STATE = ModuleState(sw)
def fresh_module():
    """module-level state of rtflite.strwidth (e.g. a memo) must not leak from one explored path into the next"""
    _STATE.reset()

def measure(font, size, unit, text="abc"):
    """real get_string_width with Pillow replaced by fonts whose measured length identifies (file, size, text)"""
    class FakeFont:
        def __init__(self, path, size):
            self.path, self.size = str(path), size
        def getlength(self, t):
            return fpx(self.path, self.size, t)
    saved = swapped((__import__("PIL.ImageFont", fromlist=["x"]), NS(truetype=lambda path, size=None: FakeFont(path, size))))
    saved.__enter__()
    try:
        try:
            return "ok", sw.get_string_width(text, font=font, font_size=size, unit=unit, dpi=72.0)
        except ValueError:
            return "ValueError", None
    finally:
        saved.__exit__()

def expected(name, size, unit, text="abc"):
    import importlib.resources as ir
    import rtflite.fonts
    px = fpx(ir.files(rtflite.fonts) / PATHS[name], size, text)
    return {"px": px, "in": px / 72.0, "mm": (px / 72.0) * 25.4}[unit]
'''


def build(tier, seed):
    quick = tier == "quick"
    T = 240 if quick else 300
    obs = []
    obs.append(Ob(oid="O1.unit_conversions", kind="py", target="vf.engb_obs:strwidth_units", kwargs={"tier": tier, "seed": seed}, timeout=T,
                  funcs=["rtflite.strwidth:get_string_width"],
                  stubs=["Pillow ImageFont.truetype(...).getlength -> an arbitrary non-negative double px"],
                  bounds="measured length px in [0, 1e6] and dpi in [36, 600] as IEEE-754 doubles (QF_FP, bit exact)",
                  what="the result in 'px' is the measured length, 'in' is px/dpi, 'mm' is exactly ('in' result)*25.4, all non-negative"))
    for emptyv in (False, True):
      obs.append(Ob(
        oid="O2.font_by_number_and_name" + (".empty_text" if emptyv else ""), sig="num: int, u: int, z: int", pre=["-3 <= num <= 14", "0 <= u <= 5", "0 <= z <= 5"], header=HDR20, timeout=T,
        body=("\n    empty = %r" % emptyv) + r'''
    unit = pick(UNITS, u)
    n = concrete_int(num, -3, 14)
    size = pick([0.5, 4.2, 9, 9.5, 11.3, 48], z)
    text = "" if empty else "abc"
    fresh_module()
    st_n, val_n = measure(n, size, unit, text)
    if not (1 <= n <= 10 and u <= 2):
        return st_n == "ValueError"
    name = NAMES[n - 1]
    st_s, val_s = measure(name, size, unit, text)
    return st_n == "ok" and st_s == "ok" and val_n == val_s and val_n == expected(name, size, unit, text) and (val_n == 0) == empty
''',
        funcs=["rtflite.strwidth:get_string_width", "rtflite.fonts_mapping:FontMapping.get_font_paths",
               "rtflite.fonts_mapping:FontMapping.get_font_number_to_name_mapping"],
        stubs=["Pillow -> fonts whose measured length identifies the (font file, size, text) used"],
        bounds="font number -3..14 and the name mapped to it, unit in {in,mm,px,cm,'',IN}, size in {0.5, 4.2, 9, 9.5, 11.3, 48}, text 'abc' or empty",
        what="a font given by number or by its name measures the text with the font file mapped to it at exactly the requested size and "
             "returns the same value (0 for the empty text); an unsupported font number or unit raises ValueError, also for the empty text"))
    obs.append(Ob(
        oid="O2.unknown_name", sig="b: int, u: int, empty: bool", pre=["0 <= b <= 3", "0 <= u <= 2"], header=HDR20, timeout=T,
        body=r'''
    st, val = measure(pick(BOGUS, b), 9, pick(UNITS, u), "" if empty else "abc")
    return st == "ValueError"
''',
        funcs=["rtflite.strwidth:get_string_width"], bounds="4 unsupported font names x the three legal units x text 'abc' or empty",
        what="an unsupported font name raises ValueError"))
    obs.append(Ob(
        oid="O3.history_independent", sig="f1: int, f2: int, z1: int, z2: int, same_text: bool",
        pre=["0 <= f1 <= 2 and 0 <= f2 <= 2", "0 <= z1 <= 3 and 0 <= z2 <= 3"], header=HDR20, timeout=T,
        body=r'''
    sizes = [9, 9.2, 10, 10.5]
    a, b = pick([1, 4, 9], f1), pick([1, 4, 9], f2)
    s1, s2 = pick(sizes, z1), pick(sizes, z2)
    unit = "px"
    fresh_module()
    measure(a, s1, unit, "abc")
    st, val = measure(b, s2, unit, "abc" if same_text else "abcd")
    return st == "ok" and val == expected(NAMES[b - 1], s2, unit, "abc" if same_text else "abcd")
''',
        funcs=["rtflite.strwidth:get_string_width"],
        stubs=["Pillow -> fonts whose measured length identifies the (font file, size, text) used"],
        bounds="one earlier measurement (font 1, 4 or 9 - three different font files; size in {9, 9.2, 10, 10.5}) followed by the measurement "
               "under test (any of those fonts and sizes, same or other text)",
        what="a measurement uses the font file and the exact size it was asked for, whatever was measured before (no lossy memoisation)"))
    # O4: what is measured is the text that was given
    obs.append(Ob(
        oid="O4.text_passthrough", sig="k: int, c: str, f: int", pre=["0 <= k <= 7", "len(c) <= 1", "0 <= f <= 2"], header=HDR20, timeout=T,
        body=r"""
    BS = chr(92)
    base = pick(["", "x", BS + "pm", BS + "alpha", "a" + BS + "pi b", BS + "mathbb{R}", "a^b_c", ">= <="], k)
    text = base + c
    seen = []
    class FakeFont:
        def getlength(self, t):
            seen.append(t)
            return 7.0
    saved = swapped((__import__("PIL.ImageFont", fromlist=["x"]), NS(truetype=lambda path, size=None: FakeFont())))
    saved.__enter__()
    try:
        fresh_module()
        val = sw.get_string_width(text, font=pick([1, 4, 9], f), font_size=9, unit="px")
    finally:
        saved.__exit__()
    if text == "":
        return val == 0 or (val == 7.0 and seen == [""])
    return seen == [text] and val == 7.0
""",
        funcs=["rtflite.strwidth:get_string_width"],
        stubs=["Pillow -> font recording the string it is asked to measure"],
        bounds="texts = one of 8 stems (empty, plain, LaTeX-like commands, braces, ^ _ >= <=) followed by at most one SYMBOLIC character",
        what="the string handed to the font for measuring is exactly the caller's text - measured once, never converted, trimmed or "
             "normalised - so monotonicity, scaling and the monospace rule are the font's, not the wrapper's"))
    meta = {
        "explanation": "Only the wrapper around Pillow is Python: with the measured pixel length an arbitrary non-negative double, the "
                       "three unit results are decided bit-exactly (congruence on the shared px/dpi term, no division solved), and "
                       "the font-number / font-name / unit dispatch is executed symbolically with a recording stub.",
        "outside": ["monotonicity under appending, scaling with font size and the monospace advance: "
                    "facts about FreeType glyph tables (C code), not decidable by this technique"],
        "assumptions": ["Pillow's getlength returns a non-negative finite double"],
    }
    return obs, meta
