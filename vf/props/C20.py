"""C20 - string width measurement is consistent (wrapper clauses; glyph metrics are FreeType's)."""
from ..runner import Ob

HDR20 = r'''
from vf.hlib import NS, pick, concrete_int
import rtflite.strwidth as sw
from rtflite.fonts_mapping import FontMapping
NAMES = list(FontMapping.get_font_name_to_number_mapping())
PATHS = FontMapping.get_font_paths()
UNITS = ["in", "mm", "px", "cm", "", "IN"]
BOGUS = ["Comic Sans", "", "arial", "Times"]

def measure(font, size, unit, text="abc", px=30.0):
    """real get_string_width with Pillow replaced by a recorder returning px"""
    seen = []
    class FakeFont:
        def getlength(self, t):
            seen.append(("text", t))
            return px
    saved = sw.ImageFont
    sw.ImageFont = NS(truetype=lambda path, size=None: (seen.append(("font", str(path), size)), FakeFont())[1])
    try:
        try:
            val = sw.get_string_width(text, font=font, font_size=size, unit=unit, dpi=72.0)
            return "ok", val, seen
        except ValueError:
            return "ValueError", None, seen
    finally:
        sw.ImageFont = saved
'''


def build(tier, seed):
    quick = tier == "quick"
    T = 90 if quick else 300
    obs = []
    obs.append(Ob(oid="O1.unit_conversions", kind="py", target="vf.engb_obs:strwidth_units", kwargs={"tier": tier, "seed": seed}, timeout=T,
                  funcs=["rtflite.strwidth:get_string_width"],
                  stubs=["Pillow ImageFont.truetype(...).getlength -> an arbitrary non-negative double px"],
                  bounds="measured length px in [0, 1e6] and dpi in [36, 600] as IEEE-754 doubles (QF_FP, bit exact)",
                  what="the result in 'px' is the measured length, 'in' is px/dpi, 'mm' is exactly ('in' result)*25.4, all non-negative"))
    obs.append(Ob(
        oid="O2.font_by_number_and_name", sig="num: int, u: int, z: int", pre=["-3 <= num <= 14", "0 <= u <= 5", "0 <= z <= 5"], header=HDR20, timeout=T,
        body=r'''
    unit = pick(UNITS, u)
    n = concrete_int(num, -3, 14)
    half = pick([0.5, 4, 9, 9.5, 12, 48], z)
    st_n, val_n, seen_n = measure(n, half, unit)
    legal_font = 1 <= n <= 10
    legal_unit = u <= 2
    if not (legal_font and legal_unit):
        return st_n == "ValueError"
    name = NAMES[n - 1]
    st_s, val_s, seen_s = measure(name, half, unit)
    if st_n != "ok" or st_s != "ok" or val_n != val_s or seen_n != seen_s:
        return False
    font_calls = [s for s in seen_n if s[0] == "font"]
    return len(font_calls) == 1 and font_calls[0][1].endswith(PATHS[name]) and font_calls[0][2] == half \
        and [s for s in seen_n if s[0] == "text"] == [("text", "abc")]
''',
        funcs=["rtflite.strwidth:get_string_width", "rtflite.fonts_mapping:FontMapping.get_font_paths",
               "rtflite.fonts_mapping:FontMapping.get_font_number_to_name_mapping"],
        stubs=["Pillow -> recorder of (font file, size, text)"],
        bounds="font number -3..14 and the name mapped to it, unit in {in,mm,px,cm,'',IN}, size in {0.5, 4, 9, 9.5, 12, 48}",
        what="a font given by number or by its name measures the same text with the same font file at the same size and returns the "
             "same value; an unsupported font number or unit raises ValueError"))
    obs.append(Ob(
        oid="O2.unknown_name", sig="b: int, u: int", pre=["0 <= b <= 3", "0 <= u <= 2"], header=HDR20, timeout=T,
        body=r'''
    st, val, seen = measure(pick(BOGUS, b), 9, pick(UNITS, u))
    return st == "ValueError" and seen == []
''',
        funcs=["rtflite.strwidth:get_string_width"], bounds="4 unsupported font names x the three legal units",
        what="an unsupported font name raises ValueError before anything is measured"))
    meta = {
        "explanation": "Only the wrapper around Pillow is Python: with the measured pixel length an arbitrary non-negative double, the "
                       "three unit results are decided bit-exactly (congruence on the shared px/dpi term, no division solved), and "
                       "the font-number / font-name / unit dispatch is executed symbolically with a recording stub.",
        "outside": ["width of the empty string, monotonicity under appending, scaling with font size and the monospace advance: "
                    "facts about FreeType glyph tables (C code), not decidable by this technique"],
        "assumptions": ["Pillow's getlength returns a non-negative finite double"],
    }
    return obs, meta
