"""C13 - group_by blanks only true repeats and restores context on each page."""
from ..runner import Ob

HDR13 = r'''
from vf.hlib import NS, pick, concrete_int
from vf import minipl
import rtflite.services.grouping_service as gs
from rtflite.services.grouping_service import GroupingService
class _FreshService:
    """a new GroupingService per use: nothing an instance remembers leaks from one explored path into the next"""
    def __getattr__(self, name):
        return getattr(GroupingService(), name)
SVC = _FreshService()

def key(z, k):
    return None if z else k

def blank_expected(rows, i):
    """statement: blank iff not the first row and the hierarchical key prefix equals the previous row's (null == null only)"""
    return i > 0 and rows[i] == rows[i - 1]
'''


def keysig(n, levels):
    parts = []
    for l in range(levels):
        parts += ["k%d_%d: str, z%d_%d: bool" % (l, i, l, i) for i in range(n)]
    return ", ".join(parts)


def keypre(n, levels):
    return ["len(k%d_%d) == 1" % (l, i) for l in range(levels) for i in range(n)]


def cols_src(n, levels):
    names = "GHK"
    return "{" + ", ".join("%r: [%s]" % (names[l], ", ".join("key(z%d_%d, k%d_%d)" % (l, i, l, i) for i in range(n))) for l in range(levels)) + \
        ", 'v': [%s]}" % ", ".join("'v%d'" % i for i in range(n))


def asig(n, levels):
    return ", ".join("a%d_%d: int" % (l, i) for l in range(levels) for i in range(n))


def apre(n, levels, size):
    return ["0 <= a%d_%d <= %d" % (l, i, size) for l in range(levels) for i in range(n)]


def acols_src(n, levels, size):
    names = "GHK"
    alpha = [None] + ["abcde"[j] for j in range(size)]
    return "{" + ", ".join("%r: [%s]" % (names[l], ", ".join("pick(%r, a%d_%d)" % (alpha, l, i) for i in range(n))) for l in range(levels)) + \
        ", 'v': [%s]}" % ", ".join("'v%d'" % i for i in range(n))


def build(tier, seed):
    quick = tier == "quick"
    T = 240 if quick else 900
    obs = []
    obs.append(Ob(oid="O0.model_validation", kind="py", target="vf.minipl_validate:validate", kwargs={"tier": tier, "seed": seed}, timeout=T,
                  funcs=["rtflite.services.grouping_service:GroupingService._suppress_single_column",
                         "rtflite.services.grouping_service:GroupingService._suppress_hierarchical_columns",
                         "rtflite.services.grouping_service:GroupingService.restore_page_context",
                         "rtflite.services.grouping_service:GroupingService.validate_data_sorting"],
                  bounds="150 (quick) / 800 (thorough) seeded random frames of 1..7 rows with nulls, 1-3 group levels, random page starts",
                  what="assumption validation: the polars model (null/Kleene semantics) gives the same result as real polars for the real "
                       "grouping functions"))
    # O1: suppression
    shapes = [(1, 2), (1, 3), (1, 4), (2, 2), (2, 3), (3, 2)] if quick else [(1, 2), (1, 3), (1, 4), (1, 5), (2, 2), (2, 3), (2, 4), (3, 2), (3, 3)]
    for levels, n in shapes:
        names = ["G", "H", "K"][:levels]
        obs.append(Ob(
            oid="O1.suppress.l%d.n%d" % (levels, n), sig=keysig(n, levels), pre=keypre(n, levels), header=HDR13, timeout=T,
            body=r'''
    cols = %s
    names = %r
    with minipl.substituted(gs):
        df = minipl.Frame(cols)
        out = SVC._suppress_single_column(df, names[0]) if len(names) == 1 else SVC._suppress_hierarchical_columns(df, names)
        got = out.to_dicts()
    ok = len(got) == %d and list(out.columns) == list(cols)
    for i in range(%d):
        for l, nm in enumerate(names):
            prefix = [tuple(cols[m][j] for m in names[:l + 1]) for j in range(%d)]
            want = None if blank_expected(prefix, i) else cols[nm][i]
            ok = ok and got[i][nm] == want
        ok = ok and got[i]["v"] == "v%%d" %% i
    return ok and df.to_dicts() == minipl.Frame(cols).to_dicts()
''' % (cols_src(n, levels), names, n, n, n),
            funcs=["rtflite.services.grouping_service:GroupingService._suppress_single_column",
                   "rtflite.services.grouping_service:GroupingService._suppress_hierarchical_columns"],
            stubs=["polars -> vf.minipl model (validated against real polars each run)"],
            bounds="%d group level(s), %d rows, every key a symbolic one-character string or null" % (levels, n),
            what="a group_by cell is blank exactly when its hierarchical key (null distinct from every non-null, equal to null) equals "
                 "that of the preceding row; other columns and the input frame are untouched"))
    # O2: page-context restoration
    for levels, n in (((1, 3), (2, 2)) if quick else ((1, 3), (1, 4), (2, 2), (2, 3))):
        names = ["G", "H"][:levels]
        obs.append(Ob(
            oid="O2.restore.l%d.n%d" % (levels, n), sig=keysig(n, levels) + ", " + ", ".join("s%d: bool" % i for i in range(n)), pre=keypre(n, levels),
            header=HDR13, timeout=T,
            body=r'''
    cols = %s
    names = %r
    starts = [i for i, f in enumerate([%s]) if f]
    with minipl.substituted(gs):
        df = minipl.Frame(cols)
        sup = SVC._suppress_single_column(df, names[0]) if len(names) == 1 else SVC._suppress_hierarchical_columns(df, names)
        got = SVC.restore_page_context(sup, df, names, starts).to_dicts()
        base = sup.to_dicts()
    ok = True
    for i in range(%d):
        for nm in names:
            ok = ok and got[i][nm] == (cols[nm][i] if i in starts else base[i][nm])
        ok = ok and got[i]["v"] == "v%%d" %% i
    return ok
''' % (cols_src(n, levels), names, ", ".join("s%d" % i for i in range(n)), n),
            funcs=["rtflite.services.grouping_service:GroupingService.restore_page_context"],
            stubs=["polars -> vf.minipl model"], bounds="%d rows, %d level(s), symbolic nullable keys, symbolic set of page-start rows" % (n, levels),
            what="the first row of every page shows the original group values; all other cells keep their suppressed state"))
    # O3: page starts handed to the restoration
    obs.append(Ob(
        oid="O3.page_starts", sig="h0: int, h1: int, h2: int, sub1: bool, sub2: bool", pre=["h0 >= 1 and h1 >= 1 and h2 >= 1"], timeout=T,
        header=HDR13 + r'''
import rtflite.encoding.unified_encoder as ue
from rtflite.encoding.unified_encoder import UnifiedRTFEncoder
''',
        body=r'''
    H = [h0, h1, h2]
    seen = {}
    class Rec:
        def slice(self, off, ln=None):
            return NS(height=ln, width=2, tag=(off, ln))
        width = 2
    class GS:
        def enhance_group_by(self, df, group_by):
            seen["enhanced"] = (df, list(group_by))
            return Rec()
        def restore_page_context(self, suppressed, original, group_by, starts):
            seen["starts"] = list(starts)
            seen["orig"] = original
            return Rec()
    hdrs = [{"group_values": {"s": "A"}}, {"group_values": {"s": "B" if sub1 else "A"}}, {"group_values": {"s": "C" if sub2 else "A"}}]
    pages = [NS(data=NS(height=h, width=2), subline_header=hd, page_number=i + 1) for i, (h, hd) in enumerate(zip(H, hdrs))]
    full = Rec()
    saved = swapped((ue.grouping_service, GS()))
    saved.__enter__()
    try:
        UnifiedRTFEncoder._apply_data_post_processing(UnifiedRTFEncoder.__new__(UnifiedRTFEncoder), pages, full, NS(group_by=["g"]))
    finally:
        saved.__exit__()
    return seen.get("starts") == [h0, h0 + h1] and seen["enhanced"][0] is full and seen["orig"] is full \
        and [p.data.tag for p in pages] == [(0, h0), (h0, h1), (h0 + h1, h2)]
''',
        funcs=["rtflite.encoding.unified_encoder:UnifiedRTFEncoder._apply_data_post_processing"],
        stubs=["grouping service / frames -> recorders", "PageContext -> namespace"],
        bounds="3 pages with unbounded symbolic heights; subline headings equal or different between consecutive pages",
        what="group context is restored at the first row of EVERY page after the first (cumulative page heights), whatever the pages' "
             "subline headings, and each page receives its own slice of the restored frame"))
    # O4: contiguity validation (the functions put keys into sets: keys range over a small alphabet + null, which is
    # enough because contiguity only depends on the equality pattern of the keys)
    for levels, n, size in (((1, 3, 3), (1, 4, 3), (2, 3, 2), (3, 3, 1)) if quick else ((1, 3, 3), (1, 4, 4), (1, 5, 3), (2, 3, 2), (2, 4, 2), (3, 3, 1), (3, 4, 1))):
        names = ["G", "H", "K"][:levels]
        obs.append(Ob(
            oid="O4.sorting.l%d.n%d" % (levels, n), sig=asig(n, levels), pre=apre(n, levels, size), header=HDR13, timeout=T,
            body=r'''
    cols = %s
    names = %r
    with minipl.substituted(gs):
        try:
            SVC.enhance_group_by(minipl.Frame(cols), names)
            got = "ok"
        except ValueError:
            got = "ValueError"
    bad = False
    for l in range(len(names)):
        keys = [tuple(cols[m][j] for m in names[:l + 1]) for j in range(%d)]
        for i in range(%d):
            for j in range(i + 2, %d):
                if keys[j] == keys[i] and any(keys[t] != keys[i] for t in range(i + 1, j)):
                    bad = True
    return got == ("ValueError" if bad else "ok")
''' % (acols_src(n, levels, size), names, n, n, n),
            funcs=["rtflite.services.grouping_service:GroupingService.validate_data_sorting", "rtflite.services.grouping_service:GroupingService.enhance_group_by"],
            stubs=["polars -> vf.minipl model (cast/fill_null/concat_str included)"],
            bounds="%d group level(s), %d rows, keys over an alphabet of %d letters or null (solver-enumerated)" % (levels, n, size),
            what="enhance_group_by (the entry point the encoder calls) raises ValueError iff, at some level, equal hierarchical keys are "
                 "separated by a different key; contiguous data is rendered"))
    # O5: validation is not remembered across calls: the same rows in a non-contiguous order are still rejected
    for levels, n, size in (((1, 3, 2), (2, 3, 1)) if quick else ((1, 3, 3), (1, 4, 3), (2, 3, 2), (2, 4, 1))):
        names = ["G", "H", "K"][:levels]
        obs.append(Ob(
            oid="O5.validation_history.l%d.n%d" % (levels, n), sig=asig(n, levels) + ", shared: bool", pre=apre(n, levels, size), header=HDR13, timeout=T,
            body=r"""
    cols = %s
    names = %r
    n = %d
    rows = [tuple(cols[m][j] for m in names) + (cols["v"][j],) for j in range(n)]
    order = sorted(range(n), key=lambda j: tuple((0, "") if x is None else (1, x) for x in rows[j][:-1]))
    sorted_cols = {m: [cols[m][j] for j in order] for m in list(names) + ["v"]}
    svc = gs.grouping_service if shared else GroupingService()       # the encoder's singleton, or one private instance
    with minipl.substituted(gs):
        svc.enhance_group_by(minipl.Frame(sorted_cols), names)           # same rows, contiguous: accepted
        try:
            svc.enhance_group_by(minipl.Frame(cols), names)
            got = "ok"
        except ValueError:
            got = "ValueError"
    bad = False
    for l in range(len(names)):
        keys = [tuple(cols[m][j] for m in names[:l + 1]) for j in range(n)]
        for i in range(n):
            for j in range(i + 2, n):
                if keys[j] == keys[i] and any(keys[t] != keys[i] for t in range(i + 1, j)):
                    bad = True
    return got == ("ValueError" if bad else "ok")
""" % (acols_src(n, levels, size), names, n),
            funcs=["rtflite.services.grouping_service:GroupingService.enhance_group_by", "rtflite.services.grouping_service:GroupingService.validate_data_sorting"],
            stubs=["polars -> vf.minipl model"],
            bounds="%d level(s), %d rows over %d letters or null: first the rows in sorted (contiguous) order, then the SAME rows in the "
                   "symbolic order, on one service object (the encoder's singleton or a private one)" % (levels, n, size),
            what="a frame is validated on every call: having accepted the same rows in another order earlier changes nothing"))
    meta = {
        "explanation": "The polars expression kernels of group_by run on a pure-Python polars model (engine C) whose cells are symbolic "
                       "one-character strings or null, so CrossHair/z3 decides the suppression rule, the page-start restoration and the "
                       "contiguity check for EVERY key sequence of the stated length; the model is validated against real polars on "
                       "seeded random frames on every run.",
        "outside": ["more rows / levels than stated", "key values other than one-character strings (the functions only compare keys)",
                    "rendering of the blank cells (C02)"],
        "assumptions": ["vf.minipl implements polars' documented null semantics (differentially validated)"],
    }
    return obs, meta
