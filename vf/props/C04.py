"""C04 - page breaks occur only when required, and always when required."""
from ..runner import Ob
from ._pag import F_ASSIGN, F_META, HDR, assign_ob, glue_ob, partitions

ORACLE = "breaks_iff_required(pages, H, S, G, nrow, add, new_page, C)"
WHAT = ("page(i)!=page(i-1) => forced(i) or fill+h_i>avail; page(i)==page(i-1) => not forced and fill+h_i<=avail; "
        "pages start at 1 and step by 0/1 (oracle recomputes fill from the returned assignment)")

HDR_SPY = HDR + r'''
import polars as pl
from rtflite.pagination.strategies.grouping import PageByStrategy, SublineStrategy
from rtflite.pagination.strategies.defaults import DefaultPaginationStrategy
from rtflite.pagination.core import PageBreakCalculator as _PBC
class _Empty:
    """metadata frame with no rows: metadata["page"].unique().sort() -> []"""
    height = 0
    def __getitem__(self, k): return self
    def unique(self): return self
    def sort(self): return []
EMPTY = _Empty()
def spy(strategy_cls, body):
    seen = {}
    orig = _PBC.calculate_row_metadata
    def fake(self, **kw):
        seen.update(kw)
        return EMPTY
    _PBC.calculate_row_metadata = fake
    try:
        ctx = NS(rtf_page=NS(width=8.5, height=11.0, margin=[1, 1, 1, 1, 1, 1], nrow=10, orientation="portrait"),
                 rtf_body=body, df=None, col_widths=[1.0], table_attrs=None, removed_column_indices=None,
                 additional_rows_per_page=0)
        pages = strategy_cls().paginate(ctx)
    finally:
        _PBC.calculate_row_metadata = orig
    return seen, pages
'''


def build(tier, seed):
    obs = []
    quick = tier == "quick"
    T = 240 if quick else 900
    # O1: break iff required
    for n in (1, 2, 3):
        obs.append(assign_ob("O1.n%d" % n, n, ORACLE, WHAT, T))
    if quick:
        for i, fx in enumerate(partitions(4, 1)):
            obs.append(assign_ob("O1.n4.p%d" % i, 4, ORACLE, WHAT, T, fixed=fx))
    else:
        for i, fx in enumerate(partitions(4, 1)):
            obs.append(assign_ob("O1.n4.p%d" % i, 4, ORACLE, WHAT, T, fixed=fx))
        for i, fx in enumerate(partitions(5, 2)):
            obs.append(assign_ob("O1.n5.p%d" % i, 5, ORACLE, WHAT, T, fixed=fx))
        for i, fx in enumerate(partitions(6, 3)):
            obs.append(assign_ob("O1.n6.p%d" % i, 6, ORACLE, WHAT, T, fixed=fx))
        # the quantifier's n <= 7 (heights unbounded rather than in {1,2,3}); 512 flag-prefix partitions
        for i, fx in enumerate(partitions(7, 4)):
            obs.append(assign_ob("O1.n7.p%d" % i, 7, ORACLE, WHAT, 1500, fixed=fx))
    # O2: prefix stability (appending a row never changes earlier pages)
    for n in ((2, 3) if quick else (2, 3, 4)):
        obs.append(assign_ob(
            "O2.prefix.n%d" % n, n, "pages[:%d] == shorter" % (n - 1),
            "assignment of rows 0..n-2 is the same with and without row n-1", T,
            extra_body="    shorter = assign(H[:-1], S[:-1], G[:-1], nrow, add, new_page, C[:-1])\n"))
    # O3: group-start flags and budgeted heading rows from calculate_row_metadata ('-----' divider values included)
    for n in ((2, 3) if quick else (2, 3, 4)):
        for levels in (1, 2):
            names = ["g", "h"][:levels]
            # quick tier, n=3 with two levels: no divider values; thorough n=4 with two levels: no divider values either
            # (with them: > 2400 paths, not decided within the budget); otherwise on every level
            div_levels = [] if (quick and n == 3 and levels == 2) else ([] if (n == 4 and levels == 2) else list(range(levels)))
            ksig = ", ".join("k%d_%d: str" % (l, i) + (", d%d_%d: bool" % (l, i) if l in div_levels else "")
                             for l in range(levels) for i in range(n))
            pre = ["len(k%d_%d) == 1" % (l, i) for l in range(levels) for i in range(n)]
            lk = "[" + ", ".join("[" + ", ".join(("(DIV if d%d_%d else k%d_%d)" % (l, i, l, i)) if l in div_levels else ("k%d_%d" % (l, i))
                                                 for i in range(n)) + "]" for l in range(levels)) + "]"
            obs.append(Ob(
                oid="O3.meta.n%d.l%d" % (n, levels), sig=ksig + ", nrow: int, add: int, new_page: bool, sub: bool",
                pre=pre + ["nrow >= 1", "add >= 0"], header=HDR, timeout=T, funcs=F_META,
                body=r'''
    LK = %s
    names = %r
    cols = dict(zip(names, LK))
    cols["v"] = ["x"] * %d
    removed = list(range(len(names)))
    if sub:
        rows = metadata(cols, [1.0], None, names, removed, nrow, add, True, lambda t, f, s: 0.5)
    else:
        rows = metadata(cols, [1.0], names, None, removed, nrow, add, new_page, lambda t, f, s: 0.5)
    ok = len(rows) == %d
    for i, r in enumerate(rows):
        start, want_hdr, want_cont = expected_meta(LK, i, sub)
        flag = r["is_subline_start"] if sub else r["is_group_start"]
        other = r["is_group_start"] if sub else r["is_subline_start"]
        hdr = r["subline_header_rows"] if sub else r["pageby_header_rows"]
        ok = ok and flag == start and other == False and r["row_index"] == i
        ok = ok and r["data_rows"] == 1 and hdr == want_hdr and r["total_rows"] == 1 + hdr
        if not sub:
            ok = ok and (r.get("continuation_header_rows") or 0) == want_cont
    return ok
''' % (lk, names, n, n),
                stubs=["data frame -> FakeFrame dict-of-lists", "get_string_width -> constant 0.5 (every cell/heading is one line "
                       "in a 1-inch column)", "pl.DataFrame(rows) -> recording object"],
                bounds="n=%d rows, %d grouping level(s), every key a symbolic one-character string%s, page_by or "
                       "subline_by (symbolic), nrow/reserved unbounded" % (
                           n, levels, " or the '-----' divider" if len(div_levels) == levels else (
                               " (the '-----' divider on level(s) %s)" % div_levels if div_levels else " (no divider values)")),
                what="is_group_start/is_subline_start(i) <=> some key of row i differs from row i-1 (a divider is a key value); row 0 "
                     "starts; total_rows = data lines + one heading line per rendered non-divider level of the starting group; the rows "
                     "charged for headings repeated at the top of a page count non-divider levels only (dividers never cost a row)"))
    # O4: the strategies pass the right forcing flags to the calculator
    obs.append(Ob(
        oid="O4.strategy_flags", sig="new_page: bool, pageby_header: bool, which: int", pre=["0 <= which <= 2"],
        header=HDR_SPY, timeout=T,
        body=r'''
    body = NS(page_by=["g"], subline_by=["s"], new_page=new_page, pageby_header=pageby_header)
    cls = [DefaultPaginationStrategy, PageByStrategy, SublineStrategy][which]
    seen, pages = spy(cls, body)
    if pages != []:
        return False
    if which == 2:
        return seen.get("new_page") is True and seen.get("subline_by") == ["s"] and seen.get("page_by") == ["g"]
    if which == 1:
        return seen.get("new_page") == new_page and seen.get("page_by") == ["g"] and not seen.get("subline_by")
    return not seen.get("new_page") and not seen.get("page_by") and not seen.get("subline_by")
''',
        funcs=["rtflite.pagination.strategies.grouping:SublineStrategy.paginate",
               "rtflite.pagination.strategies.grouping:PageByStrategy.paginate",
               "rtflite.pagination.strategies.defaults:DefaultPaginationStrategy.paginate"],
        stubs=["PageBreakCalculator.calculate_row_metadata -> recorder returning an empty frame"],
        bounds="new_page, pageby_header symbolic; the three strategies",
        what="SublineStrategy forces new_page=True and passes subline_by; PageByStrategy passes the body's new_page"))
    # O5: the heading height is a function of its arguments (same text, other table width / font: recomputed)
    obs.append(Ob(
        oid="O5.header_rows_history", sig="w1: int, w2: int, f2: int, z2: int", pre=["1 <= w1 <= 4 and 1 <= w2 <= 4", "0 <= f2 <= 1 and 0 <= z2 <= 1"],
        header=HDR + "from vf.hlib import swapped, concrete_int\nfrom rtflite.strwidth import get_string_width as _real_gsw\n", timeout=T,
        body=r"""
    W1, W2 = concrete_int(w1, 1, 4), concrete_int(w2, 1, 4)
    font2, size2 = (1, 4)[concrete_int(f2, 0, 1)], (9, 18)[concrete_int(z2, 0, 1)]
    def gsw(text, font="Times New Roman", font_size=12, unit="in", dpi=72.0):
        return 3.5 * (2 if font == 4 else 1) * (font_size / 9.0)        # a heading 3.5 in long in font 1 at 9pt
    calc = calc_ns(10)
    with swapped((_real_gsw, gsw)):
        first = PBC._calculate_header_rows(calc, "Treatment group heading", float(W1), 1, 9)
        second = PBC._calculate_header_rows(calc, "Treatment group heading", float(W2), font2, size2)
    want1 = max(1, int(3.5 / W1) + 1)
    want2 = max(1, int(3.5 * (2 if font2 == 4 else 1) * (size2 / 9.0) / W2) + 1)
    return first == want1 and second == want2
""",
        funcs=["rtflite.pagination.core:PageBreakCalculator._calculate_header_rows"],
        stubs=["get_string_width -> 3.5 in for the heading in font 1 at 9pt, scaling with font and size"],
        bounds="the same heading text measured for two tables in one process: widths 1..4 in (symbolic), second call with font 1|4 and size 9|18",
        what="the number of lines a group heading occupies is computed from THIS call's table width, font and size - nothing is "
             "remembered from the same heading in an earlier table"))
    # O6: the section glue hands the calculator the indices of exactly the columns that were removed from the display
    obs.append(glue_ob("O6.section_glue", T))
    meta = {
        "explanation": "The real greedy page-assignment kernel PageBreakCalculator._assign_pages is executed symbolically by "
                       "CrossHair with fixed row count n and UNBOUNDED integer heights, nrow and reserved rows and symbolic "
                       "forcing flags; z3 decides on every path that a break falls exactly where the statement requires. "
                       "calculate_row_metadata is executed on a dict-of-lists frame with symbolic one-character group keys. "
                       "Thorough tier: n up to 6 rows split into flag-prefix partitions run on 16 cores.",
        "outside": ["row heights as a function of text (C03/C20)", "n larger than the stated row counts",
                    "the [min,max] polars slice that materialises pages (validated by witnesses only)"],
        "assumptions": ["polars to_dicts()/DataFrame(rows) round-trip rows unchanged"],
    }
    return obs, meta
