"""Differential validation of the polars model (vf.minipl) against real polars: the same REAL rtflite functions are run on
seeded random frames with nulls on both and compared cell by cell.  A mismatch makes the model untrustworthy => the
obligations that rely on it are reported inconclusive."""
import random


def validate(tier="quick", seed=0):
    import polars as real_pl
    import rtflite.services.grouping_service as gs
    from . import minipl
    rnd = random.Random(seed)
    svc = gs.GroupingService()
    n_cases = 150 if tier == "quick" else 800
    mismatches = []
    ops = 0
    for case in range(n_cases):
        n = rnd.randint(1, 7)
        alpha = ["a", "b", None, "c"]
        cols = {"g": [rnd.choice(alpha) for _ in range(n)], "h": [rnd.choice(alpha) for _ in range(n)],
                "k": [rnd.choice(["x", "y", None]) for _ in range(n)], "v": [str(i) for i in range(n)]}
        starts = sorted(rnd.sample(range(n), rnd.randint(0, min(3, n))))
        levels = rnd.choice([["g"], ["g", "h"], ["g", "h", "k"]])

        def run(frame_mod, frame):
            out = {}
            def attempt(name, fn):
                try:
                    r = fn()
                    out[name] = r.to_dicts() if hasattr(r, "to_dicts") else r
                except ValueError as e:
                    out[name] = "ValueError"
            attempt("single", lambda: svc._suppress_single_column(frame, "g"))
            attempt("hier", lambda: svc._suppress_hierarchical_columns(frame, levels))
            sup = svc._suppress_hierarchical_columns(frame, levels) if len(levels) > 1 else svc._suppress_single_column(frame, "g")
            attempt("restore", lambda: svc.restore_page_context(sup, frame, levels, starts))
            attempt("sorting", lambda: svc.validate_data_sorting(frame, group_by=levels))
            attempt("enhance", lambda: svc.enhance_group_by(frame, levels))
            return out
        real = run(real_pl, real_pl.DataFrame(cols, schema={c: real_pl.Utf8 for c in cols}))
        with minipl.substituted(gs):
            model = run(minipl.pl, minipl.Frame(cols))
        ops += len(real)
        if real != model:
            bad = [k for k in real if real[k] != model.get(k)]
            mismatches.append({"frame": cols, "levels": levels, "starts": starts, "differs": bad,
                               "real": {k: real[k] for k in bad}, "model": {k: model.get(k) for k in bad}})
            if len(mismatches) >= 3:
                break
    out = {"paths": n_cases, "queries": 0, "solver_s": 0.0, "samples": [{"frames": n_cases, "function_results_compared": ops,
                                                                          "mismatches": mismatches[:2]}],
           "notes": ["concrete differential validation of the trusted polars model"]}
    if mismatches:
        out.update(verdict="inconclusive", reason="polars model disagrees with real polars: %r" % (mismatches[0],))
    else:
        out["verdict"] = "confirmed"
    return out
