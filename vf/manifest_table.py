"""Source of MANIFEST.json (bin/mkmanifest)."""

ALL = ["C%02d" % i for i in range(1, 21)]

TECH_A = "bounded symbolic execution of the real Python functions with CrossHair, decided per path by z3"

CHECKS = {
    "C10": dict(
        text="For every Unicode scalar value at once (one symbolic code point, 1.1M values per query) the real escape "
             "kernel and the real emitters of every text-bearing component produce 7-bit output that an RTF-rules decoder "
             "reads back as the same character; decided over all paths by CrossHair/z3, counterexamples replayed through "
             "write_rtf and an independent reader. Bounded: texts of <= 3 characters, one symbolic character.",
        note="Trusted: z3, CrossHair's str/int models, the 60-line symbolic-template patch, TextContent.model_construct "
             "standing in for pydantic validation, the RTF reader used in replays. Which emitter each component uses is "
             "validated by API witnesses (concrete), not decided.",
        design="4/C10", technique=TECH_A + "; symbolic-template patch keeps rendered numbers symbolic"),
}

CHECKS["C04"] = dict(
    text="The real greedy kernel _assign_pages is executed symbolically for a fixed row count n (quick n<=4, thorough "
         "n<=6) with UNBOUNDED integer heights, nrow and reserved rows and symbolic forcing flags: z3 shows on every path "
         "that a break falls exactly where the statement requires (forced, or the next row would not fit) and nowhere "
         "else, that earlier rows are unaffected by appended rows, that group-start flags equal key changes, and that the "
         "strategies pass the right forcing flags.",
    note="Trusted: z3/CrossHair int+str models; MetaFrame/FakeFrame standing in for polars frames; constant width stub. "
         "Outside: n beyond the bound, the polars slice that materialises pages, heights as a function of text.",
    design="4/C04", technique=TECH_A)

CHECKS["C02"] = dict(
    text="Row conservation decomposed into the kernels the property is anchored in, each executed symbolically on the real "
         "code: page assignment (unbounded heights) yields contiguous ordered non-empty ranges; re-slicing by cumulative "
         "heights (unbounded page sizes) covers [0,total) once; segment rendering between group boundaries (symbolic group "
         "values incl. dividers) emits every page row once in order with its page-relative offset; boundary detection; "
         "column removal; null/str display; and the section glue that hands the strategy the original frame and the removed "
         "column indices, the caller's rows in the caller's order; the three real paginate() methods on the polars model; "
         "conversion-off cells verbatim whatever was converted earlier in the process.",
    note="Trusted: z3/CrossHair; FakeFrame/MetaFrame/vf.minipl standing in for polars frames (operations they do not model make "
         "the obligation inconclusive, never violated); TextContent.model_construct for pydantic. Outside: multi-section "
         "concatenation beyond section order, shapes beyond the bounds.",
    design="4/C02", technique=TECH_A)
CHECKS["C03"] = dict(
    text="Budget decided on the real kernels: _assign_pages with unbounded symbolic heights/nrow/reserved/continuation rows "
         "keeps every multi-row page within max(1,nrow-reserved); calculate_additional_rows_per_page vs the rows render() "
         "actually repeats, on the same symbolic document configuration; group headings incl. continuation headings on the "
         "chained metadata->assign->headers->render pipeline with symbolic keys; per-cell font/size of the line estimate; "
         "section glue.",
    note="Trusted: as C02 plus role-token services in the render skeleton and a constant width stub. One listed known finding "
         "(auto-generated column header not reserved). Outside: FreeType widths, footnote wrapping, nested page_by levels in "
         "the chained harness.",
    design="4/C03", technique=TECH_A)
CHECKS["C05"] = dict(
    text="Group headings decided on the real functions with symbolic group values: _get_group_headers (first row, dividers "
         "dropped, order kept), the hierarchical loop of _render_body against a reference sequence computed from the "
         "statement, render() step 7, the chained pipeline (every data row under its own group's heading on its page, no "
         "stranded heading, unbounded nrow), subline heading text and one subline group per page.",
    note="Trusted: as C02/C03. Outside: spanning-row formatting, three nested levels in the chained harness, rows beyond the "
         "bounds.",
    design="4/C05", technique=TECH_A)

CHECKS["C06"] = dict(
    text="Placement decided on the real control flow: both placement predicates over their truth table; PageRenderer.render "
         "with role-token services against the block sequence the statement prescribes (quick: upper and lower half of the "
         "page per keyword combination; thorough: the full product in 27 partitions); the figure-only encoder for 1..3(4) "
         "figures; header/footer groups of the document skeleton; needs_header/first/last/page rows of the three paginate() "
         "methods on a polars model; and, bit-exactly over IEEE-754 doubles (engine B), that every page break restates the "
         "paper size and margins of the document start for all sizes in range.",
    note="Trusted: z3 (QF_FP), CrossHair, the proxy-number tracer (validated against the plain interpreter on seeded vectors "
         "every run), role-token services, the polars model vf.minipl. Outside: documents with more pages/figures than "
         "stated.",
    design="4/C06", technique=TECH_A + "; shadow-valued tracing of the real float code into z3 QF_FP terms")

CHECKS["C07"] = dict(
    text="The three-tier border hierarchy decided on the real PageFeatureProcessor with a real RTFBody carried concretely "
         "through symbolic control flow: for every page position, header presence, footnote/source kind and placement and "
         "user border setting, each edge of each cell of the page and the component override are what the statement "
         "prescribes; plus the header top border, the footnote/source override and the single-cell update (no aliasing).",
    note="Trusted: z3/CrossHair, FakeFrame for the page frame, vf.minipl for the one-cell footnote frame. Outside: "
         "multi-section clauses, per-column user vectors overriding border_first, larger pages.",
    design="4/C07", technique=TECH_A)

CHECKS["C12"] = dict(
    text="Colour resolution decided on the real ColorService with its 657-entry table abstracted to opaque names whose "
         "master ranks are symbolic distinct integers (one query covers every subset and order of real colours of that "
         "size, RGB aliases included), directly and through the real single / multi-section / figure encode paths with "
         "probing services; font references with the font number symbolic.",
    note="Trusted: z3/CrossHair; the rank abstraction (the code only compares ranks); probes standing for the component "
         "encoders. Outside: more than 3 colours per document, RGB values of the data file, border colours.",
    design="4/C12", technique=TECH_A)
CHECKS["C14"] = dict(
    text="Purity decided by one inductive step from an ARBITRARY pre-state instead of exploring histories: for any residual "
         "colour context the three real encode paths emit the same indices as from a clean state; explicit two-step "
         "histories with a failing first encode; the class-level registry from any pre-registry; no writes into component "
         "objects during an encode that returns or raises; defaults written at construction stay in the document's own copies; "
         "the real footnote/source encoders and header rendering leave their components untouched; width measurement and "
         "validation carry nothing from call to call.",
    note="Trusted: as C12; namespaces standing for pydantic components in the encode-path obligations (real pydantic "
         "objects in O5). Byte equality of whole documents across histories is covered by concrete witnesses only.",
    design="4/C14", technique=TECH_A)
CHECKS["C15"] = dict(
    text="Other threads modelled as a nondeterministic environment: the solver chooses the call boundary k of thread A's "
         "encode at which thread B - on a real second thread, so thread/context-local state behaves as it really does - "
         "starts or completes its own encode with an arbitrary palette; A's indices and table must equal its sequential "
         "result for every k and palette (quick: one preemption; thorough: also two). Caller-owned component objects that may be "
         "shared with documents other threads encode hold their original values at every call boundary; the width-measurement "
         "wrapper gives both threads their sequential results for every placement of the other thread's measurement. A census of "
         "process-global mutable state validates that nothing else is shared.",
    note="Trusted: as C12; preemption modelled at the granularity of calls into the colour API / into rtflite.strwidth; 2 "
         "threads. Outside: races inside polars/pydantic-core, more preemptions, free-threaded builds.",
    design="4/C15", technique=TECH_A + "; schedule (preemption point, other thread's action) as symbolic variables")

CHECKS["C16"] = dict(
    text="Byte-level figure kernels run symbolically on the real code: hex payload of arbitrary byte strings and across the "
         "80-character line boundary, PNG/JPEG dimension parsing with symbolic headers and symbolic preceding marker "
         "segments, format detection, positional size lookup with last-value reuse through the real figure-only encoder, the "
         "picture group, placement of title/footnote/source around 1..3 figures, a file read twice with its content changed in "
         "between, and - bit-exact doubles via engine B - goal sizes within one twip of inches*1440.",
    note="Trusted: z3/CrossHair bytes/int models, engine-B tracer (validated each run), an in-memory file for the read-history "
         "obligation. Outside: the operating system's open/read, MIME fallback, long payloads (covered by the wrapping obligations).",
    design="4/C16", technique=TECH_A + "; shadow-valued tracing into z3 QF_FP for the goal sizes")
CHECKS["C17"] = dict(
    text="assemble_rtf executed symbolically over an in-memory file system whose files are arbitrary members of a line-class "
         "grammar of rtflite output (symbolic font-table length or the font table the code under test generates, figure-style merged preamble, colour table, body unit classes "
         "incl. multi-line groups, inputs listed twice): the written text is exactly the concatenation the statement describes "
         "and one well-formed group; single input reproduced, empty list writes nothing, missing input raises before any write; a "
         "second call after a file changed assembles the new content.",
    note="Trusted: the grammar G (validated against real rtf_encode output every run), in-memory open/exists. Outside: pages "
         "as read back by a reader (concrete witnesses), more than 3 inputs.",
    design="4/C17", technique=TECH_A)
CHECKS["C19"] = dict(
    text="Every Python-level validator of the configuration models, discovered through pydantic's decorator registry, is "
         "executed symbolically on rows and matrices whose elements range over legal and illegal candidates / symbolic "
         "numbers at symbolic positions with a symbolic field selector: ValueError exactly when some element is illegal and "
         "never another exception type; page, body, figure and document rules through the real constructors / model validator.",
    note="Trusted: z3/CrossHair; candidate lists for string-valued fields (dict membership concretises symbolic strings). "
         "Outside: pydantic-core type errors, arbitrary illegal strings beyond the candidates.",
    design="4/C19", technique=TECH_A)

CHECKS["C08"] = dict(
    text="Column geometry decided in exact real arithmetic on a trace of the real Utils._col_widths (every real width vector "
         "for n<=6 quick / n<=12 thorough: increasing, proportional, last = table width), inch->twip bit-exactly in IEEE doubles, "
         "and the row emitters - spanning row, header boundaries incl. inherited widths after column removal, footnote/source "
         "rows, data rows, width/attribute slicing, components shared with an earlier document - symbolically over their "
         "configuration space.",
    note="Trusted: z3 (NRA, QF_FP; cvc5 for the monotonicity lemma in the thorough tier), the proxy tracer (validated each "
         "run), CrossHair, vf.minipl. Table widths in the CrossHair obligations range over a k/8-inch grid because the value "
         "passes through pydantic-core; O1/O2 cover all reals/doubles.",
    design="4/C08", technique="shadow-valued tracing of the real float code into z3 real/FP terms; " + TECH_A)
CHECKS["C11"] = dict(
    text="The real regex pass executed symbolically per table entry (quick: seeded 40 plain + special + all 26 braced; "
         "thorough: all 678 reachable entries) with a symbolic neighbouring character and solver-enumerated letter / "
         "brace-group continuations against a reference written from the statement; special sequences decided in reader "
         "terms on 3-character texts over the trigger alphabet; unknown commands, page keywords, per-component text_convert.",
    note="Trusted: z3/CrossHair str+regex models, the symbol table as specification, the run decoder. One listed known "
         "finding (visible space after >= / <=). Outside: the 4 entries the letter-run rule cannot name, raw backslashes with "
         "conversion off.",
    design="4/C11", technique=TECH_A)
CHECKS["C20"] = dict(
    text="Wrapper clauses only: with Pillow's measured length an arbitrary non-negative double, the px/in/mm results are exact "
         "conversions of one another and non-negative (bit-exact, congruence on the shared px/dpi term); font by number and by "
         "name reach Pillow with the same font file, size and text; the string measured is exactly the caller's text (one symbolic "
         "character after LaTeX-like, brace and trigger stems), measured once; the empty text gives 0; unsupported font or unit "
         "raises ValueError also for the empty text; a measurement does not depend on the previous one.",
    note="The glyph-metric clauses (monotonicity, scaling, monospace advance) are facts about FreeType (C) and are NOT claimed "
         "beyond 'the wrapper hands the font exactly the caller's text, font file and size'. Trusted: z3 QF_FP, proxy tracer, "
         "recording stub for Pillow.",
    design="4/C20", technique="shadow-valued tracing into z3 QF_FP; " + TECH_A)

CHECKS["C09"] = dict(
    text="The binding of formatting to cells decided on its kernels: the recycling algebra of BroadcastValue for every value / "
         "table shape up to 4x4 (no aliasing on update), the border and cell emitters with the width symbolic, "
         "TableAttributes._encode with recording constructors for scalar / per-column / full-matrix attributes of distinct "
         "markers and a symbolic segment offset (14 text attributes, alignment, border style/width/colour per side), attribute "
         "slicing on column removal, the per-page attribute rows across a page break produced by each of the three real strategies "
         "(scalar, vector, matrix and short recycled patterns), and the border colour index following the current document.",
    note="Trusted: z3/CrossHair; recording constructors standing for the pydantic Cell/Row/Border/TextContent; FakeFrame. "
         "Outside: tables larger than the stated shapes; composition of segment offsets with page re-basing.",
    design="4/C09", technique=TECH_A)
CHECKS["C13"] = dict(
    text="The polars expression kernels of group_by run on a pure-Python polars model whose cells are symbolic one-character "
         "strings or null: the suppression rule for 1-3 levels, page-start restoration, the page starts handed to it, and the "
         "contiguity check are decided for every key sequence of the stated length; the model is validated against real polars "
         "on seeded random frames on every run.",
    note="Trusted: vf.minipl (polars' documented null/Kleene semantics; differentially validated each run), z3/CrossHair. "
         "Outside: more rows/levels than stated.",
    design="4/C13", technique=TECH_A + " over a symbolic mini-frame model of polars expressions")

CHECKS["C01"] = dict(
    text="Pipeline-wide crash freedom runs through pydantic-core and polars and cannot be encoded; decided instead: every "
         "emitter produces a balanced, lexically valid fragment for EVERY attribute value (numbers kept symbolic through "
         "rendering, one symbolic code point; text templates compositionally), rows pair boundaries with contents, the three "
         "document skeletons are one group closed only at the end, column-header rendering cannot crash on its configuration "
         "space (as_colheader=False, headers without text, nested lists) and half-point sizes reach the text model.",
    note="Trusted: z3/CrossHair, the template patch, model_construct for pydantic, vf.minipl; concrete witnesses (seeded "
         "configuration product, read back by an independent reader) are reported separately. Outside: crash freedom of the "
         "pipeline on arbitrary DataFrames.",
    design="4/C01", technique=TECH_A + "; symbolic-template patch")

NOT_APPLICABLE = {
    "C18": "file-system crash-point property: effects of pathlib/tempfile/shutil and an external converter are opaque to "
           "(and blocked under) symbolic execution; a model of the file system would verify the model, not the effects",
}

PENDING = "check not built yet in this session (work in progress; see DESIGN.md section 8 build order)"


def manifest():
    checks = []
    for pid in ALL:
        if pid in CHECKS:
            c = CHECKS[pid]
            checks.append({
                "property_id": pid,
                "quick_cmd": "bin/check %s quick" % pid,
                "thorough_cmd": "bin/check %s thorough" % pid,
                "evidence_file": "/verif/evidence/%s.json" % pid,
                "replay_cmd_template": "bin/check --replay {path}",
                "engine": "vf",
                "level_claimed": {"category": "other", "text": c["text"], "design_ref": c["design"]},
                "level_note": c["note"],
                "technique": c["technique"],
            })
    na = []
    for pid in ALL:
        if pid in CHECKS:
            continue
        na.append({"property_id": pid, "reason": NOT_APPLICABLE.get(pid, PENDING)})
    return {
        "version": 1,
        "setup_cmd": "bin/setup",
        "hooks": {
            "guard": "PHARMAVERSE_RTFLITE_VERIF",
            "enable": "no source hooks are needed: harnesses import rtflite from /repo/src and install their stubs by "
                      "monkey-patching module attributes inside the harness process",
            "baseline_off_cmd": "cd /repo && /venv/bin/python -m pytest -ra -q -p no:cacheprovider --timeout=900 --continue-on-collection-errors",
            "source_commits": [],
            "add_only": True,
        },
        "engines": [
            {"name": "vf", "path": "/verif/vf", "serves_properties": sorted(CHECKS),
             "kind_free_text": "engine A: CrossHair 0.0.110 + z3 over generated harnesses calling the real functions; "
                               "engine B: shadow-valued tracing of the real numeric code into z3 FP/real terms; "
                               "engine C: symbolic mini-frame for polars expression kernels"},
        ],
        "checks": checks,
        "not_applicable": na,
        "notes": "Every claim is bounded (bounds listed per obligation in the evidence). Exit 0 = nothing violated "
                 "(inconclusive obligations are listed, never counted as success), 1 = VIOLATION line, 3 = harness error.",
    }
