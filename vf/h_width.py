"""Harness helpers for the width-measurement wrapper (C15-O4): real get_string_width with Pillow replaced by fonts whose
measured length identifies (font file, size, text), and a second thread measuring at a chosen call boundary."""
import threading
import types

import rtflite.strwidth as sw
from vf.fakes import Stub as NS
from vf.hlib import ModuleState, swapped

_STATE = ModuleState(sw)


def fresh_module():
    _STATE.reset()


def fpx(path, size, text):
    if text == "":
        return 0.0
    return float(size) * 16 + (sum(ord(c) for c in str(path)[-12:]) % 13) + sum((i + 1) * ord(c) for i, c in enumerate(text)) / 64.0


def in_other_thread(fn):
    err = []

    def target():
        try:
            fn()
        except Exception as e:  # noqa: BLE001
            err.append(e)
    t = threading.Thread(target=target)
    t.start()
    t.join()
    if err:
        raise err[0]


def run_measurements(todo, k=None, other=None):
    """Thread A performs the measurements `todo` = [(font, size, text), ...] one after the other.  Every call of a Python
    function defined in rtflite.strwidth, of ImageFont.truetype and of font.getlength made by thread A is a call boundary;
    before A's k-th boundary a real second thread performs the measurement `other` to completion.
    Returns (A's results, B's result or None, number of boundaries A passed)."""
    me = threading.get_ident()
    counter = {"n": 0}
    b_result = []

    def boundary():
        if threading.get_ident() != me:
            return
        n = counter["n"]
        counter["n"] += 1
        if k is not None and n == k and other is not None:
            in_other_thread(lambda: b_result.append(sw.get_string_width(other[2], font=other[0], font_size=other[1], unit="px")))

    class FakeFont:
        def __init__(self, path, size):
            self.path, self.size = str(path), size

        def getlength(self, t):
            boundary()
            return fpx(self.path, self.size, t)

    def truetype(path, size=None, *a, **kw):
        boundary()
        return FakeFont(path, size)

    saved_funcs = {}
    for name, obj in list(vars(sw).items()):
        if isinstance(obj, types.FunctionType) and obj.__module__ == sw.__name__:
            saved_funcs[name] = obj

            def make(orig):
                def hooked(*a, **kw):
                    boundary()
                    return orig(*a, **kw)
                hooked.__wrapped__ = orig
                return hooked
            setattr(sw, name, make(obj))
    saved_if = swapped((__import__("PIL.ImageFont", fromlist=["x"]), NS(truetype=truetype)))
    saved_if.__enter__()
    try:
        res = [sw.get_string_width(text, font=font, font_size=size, unit="px") for font, size, text in todo]
    finally:
        saved_if.__exit__()
        for name, obj in saved_funcs.items():
            setattr(sw, name, obj)
    return res, (b_result[0] if b_result else None), counter["n"]
