"""Solver-based checking machinery for rtflite (see /verif/DESIGN.md)."""
