"""API-level realiser for C10/C11: put a text at a text-bearing position of a real document, write it with
write_rtf, read the *bytes* back with the independent RTF reader, return the decoded text."""
import contextlib
import io
import os
import tempfile

from . import rtfread as R

POSITIONS = ["cell", "colheader", "title", "subline", "footnote_tab", "footnote_par", "source_tab", "source_par",
             "page_by", "subline_by", "page_header", "page_footer"]


def place(kind, s, conv=None):
    """Return (document, locator) with text s at position kind; conv overrides text_convert when not None."""
    import polars as pl
    import rtflite as rtf

    tc = {} if conv is None else {"text_convert": conv}
    kw = {}
    df = pl.DataFrame({"c0": ["k0"], "c1": ["k1"]})
    if kind == "cell":
        df = pl.DataFrame({"c0": [s], "c1": ["k1"]})
        kw["rtf_body"] = rtf.RTFBody(**tc)
        loc = lambda d: R.rows_of(d.pages[0])[-1].cells[0].text  # noqa: E731
    elif kind == "colheader":
        kw["rtf_column_header"] = [rtf.RTFColumnHeader(text=[s, "h1"], **tc)]
        loc = lambda d: R.rows_of(d.pages[0])[0].cells[0].text  # noqa: E731
    elif kind == "title":
        kw["rtf_title"] = rtf.RTFTitle(text=s, **tc)
        loc = lambda d: R.paras_of(d.pages[0])[0].text  # noqa: E731
    elif kind == "subline":
        kw["rtf_subline"] = rtf.RTFSubline(text=s, **tc)
        loc = lambda d: R.paras_of(d.pages[0])[0].text  # noqa: E731
    elif kind in ("footnote_tab", "footnote_par"):
        kw["rtf_footnote"] = rtf.RTFFootnote(text=s, as_table=(kind == "footnote_tab"), **tc)
        if kind == "footnote_tab":
            loc = lambda d: R.rows_of(d.pages[0])[-1].cells[0].text  # noqa: E731
        else:
            loc = lambda d: [p.text for p in R.paras_of(d.pages[0]) if p.runs][-1]  # noqa: E731
    elif kind in ("source_tab", "source_par"):
        kw["rtf_source"] = rtf.RTFSource(text=s, as_table=(kind == "source_tab"), **tc)
        if kind == "source_tab":
            loc = lambda d: R.rows_of(d.pages[0])[-1].cells[0].text  # noqa: E731
        else:
            loc = lambda d: [p.text for p in R.paras_of(d.pages[0]) if p.runs][-1]  # noqa: E731
    elif kind == "page_by":
        df = pl.DataFrame({"g": [s, s], "x": ["1", "2"], "y": ["3", "4"]})
        kw["rtf_body"] = rtf.RTFBody(page_by=["g"], **tc)
        loc = lambda d: [r for r in R.rows_of(d.pages[0]) if len(r.cells) == 1][0].cells[0].text  # noqa: E731
    elif kind == "subline_by":
        df = pl.DataFrame({"g": [s, s], "x": ["1", "2"], "y": ["3", "4"]})
        kw["rtf_body"] = rtf.RTFBody(subline_by=["g"], **tc)
        loc = lambda d: [p.text for p in R.paras_of(d.pages[0]) if p.runs][0]  # noqa: E731
    elif kind == "page_header":
        kw["rtf_page_header"] = rtf.RTFPageHeader(text=s, **tc)
        loc = lambda d: d.header_text[0].rstrip("\n")  # noqa: E731
    elif kind == "page_footer":
        kw["rtf_page_footer"] = rtf.RTFPageFooter(text=s, **tc)
        loc = lambda d: d.footer_text[0].rstrip("\n")  # noqa: E731
    else:
        raise ValueError(kind)
    return rtf.RTFDocument(df=df, **kw), loc


def read_back(kind, s, conv=None):
    doc, loc = place(kind, s, conv)
    d = tempfile.mkdtemp(prefix="vf-c10-")
    try:
        p = os.path.join(d, "o.rtf")
        with contextlib.redirect_stdout(io.StringIO()):
            doc.write_rtf(p)
        with open(p, "rb") as f:
            data = f.read()
    finally:
        import shutil
        shutil.rmtree(d, ignore_errors=True)
    parsed = R.read(data)
    return loc(parsed), parsed, data


def text_at(pos, c):
    return {"start": c + "ab", "mid": "a" + c + "b", "end": "ab" + c}[pos]


def api_position(kind, cp, conv, pos):
    """'violated' iff the character is NOT read back intact at that position of a real file."""
    s = text_at(pos, chr(cp))
    try:
        got, parsed, data = read_back(kind, s, conv)
    except Exception as e:  # noqa: BLE001
        return "violated: encode raised %s: %s" % (type(e).__name__, e)
    if any(b >= 0x80 for b in data) or parsed.errors or got != s:
        return "violated: wrote %r, reader sees %r (non-ASCII bytes: %s, errors: %s)" % (
            s, got, any(b >= 0x80 for b in data), parsed.errors[:2])
    return "ok"


CLASSES = [0x78, 0xE9, 0xB1, 0xFF, 0x100, 0x3B1, 0x2028, 0x2029, 0x4E2D, 0x7FFF, 0x8000, 0xFFFD, 0x10000, 0x1F600, 0x10FFFF]


def witnesses(tier="quick", seed=0):
    """One character per class per text-bearing position (component default text_convert and False)."""
    import random
    rnd = random.Random(seed)
    cps = list(CLASSES)
    if tier == "thorough":
        cps += [rnd.randrange(0xA0, 0x10FFFF) for _ in range(12)]
        cps = [c for c in cps if not 0xD800 <= c <= 0xDFFF]
    viol, n, samples = [], 0, []
    for kind in POSITIONS:
        for cp in cps:
            for conv in ((None,) if tier == "quick" else (None, False)):
                n += 1
                v = api_position(kind, cp, conv, "mid")
                if len(samples) < 3:
                    samples.append({"kind": kind, "cp": cp, "conv": conv, "verdict": v[:80]})
                if v != "ok":
                    viol.append({"args": {"kind": kind, "cp": cp, "conv": conv}, "verdict": v[:300]})
    return {"verdict": "confirmed" if not viol else "counterexample", "replayed": n, "violations": viol,
            "samples": samples}
