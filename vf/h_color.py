"""Harness helpers for the colour properties (C12, C14, C15).

The 657-entry colour table is abstracted: the singleton's tables are swapped IN PLACE for a few opaque names whose
master-table ranks are symbolic distinct ints (the code only compares ranks), two of which may share one RGB definition
(aliases such as gray/grey).  Every subset and order of real colours is covered by the rank orders of the opaque names."""
from vf.fakes import Stub as NS
from vf.hlib import swapped
from rtflite.row import Utils
from rtflite.services.color_service import color_service as svc
import rtflite.encoding.unified_encoder as ue
from rtflite.encoding.unified_encoder import UnifiedRTFEncoder

# real colour names (tables are replaced, ranks symbolic): names a change might special-case by literal - white like black -
# are therefore in play
NAMES = ["white", "red", "grey50"]


def with_tables(ranks, alias, fn):
    saved = (svc._name_to_type, svc._name_to_rtf, svc._name_to_rgb, svc._current_document_colors)
    svc._name_to_type = dict(zip(NAMES, ranks), black=0, zz=10 ** 9)
    svc._name_to_rtf = {NAMES[0]: "RTF0;", NAMES[1]: "RTF1;", NAMES[2]: "RTF1;" if alias else "RTF2;", "black": "K;", "zz": "ZZ;"}
    try:
        return fn()
    finally:
        svc._name_to_type, svc._name_to_rtf, svc._name_to_rgb = saved[:3]
        svc._current_document_colors = saved[3]


def table_entries(table):
    if not table:
        return []
    lines = table.split("\n")
    return lines[1:-1]


def indices_ok(used, table, idx_of):
    """every used colour's index points at an entry of `table` holding that colour's definition"""
    entries = table_entries(table)
    if (len(entries) > 0) != (len(used) > 0):
        return False
    for n in used:
        i = idx_of[n]
        if not (1 <= i <= len(entries)):
            return False
        if entries[i - 1] != svc._name_to_rtf[n]:
            return False
    return True


def component(names):
    """a component carrying the given colours as text colour (text present)"""
    return NS(text=["t"], text_color=list(names), text_background_color=None)


def make_doc(used, where, multi=False, figure=False, nested=False):
    """document namespace whose colours `used` sit on the component kinds selected by `where` (0 body, 1 title,
    2 page header, 3 footnote, 4 column header)"""
    body_cols = [n for n, w in zip(used, where) if w == 0]
    def on(k):
        return [n for n, w in zip(used, where) if w == k]
    body = NS(text_color=[body_cols] if body_cols else None, text_background_color=None, border_color_left=None,
              border_color_right=None, border_color_top=None, border_color_bottom=None, border_color_first=None,
              border_color_last=None)
    doc = NS(df=None if figure else ([object(), object()] if multi else object()),
             rtf_body=None if figure else ([body, body] if multi else body),
             rtf_title=component(on(1)), rtf_subline=None, rtf_footnote=component(on(3)), rtf_source=None,
             rtf_page_header=component(on(2)), rtf_page_footer=None,
             rtf_column_header=[[component(on(4))], [None]] if nested else [component(on(4))], rtf_page=NS(page_title="all", page_footnote="last", page_source="last",
                                                                col_width=6.0, border_last="double", border_first="double"),
             rtf_figure=NS(figures=["f"], fig_width=[5.0], fig_height=[5.0], fig_align="center") if figure else None)
    return doc


_MISSING = object()


def _public_encoder():
    try:
        from rtflite.encoding import RTFEncodingEngine
        enc = getattr(RTFEncodingEngine(), "_encoder", None)
        if isinstance(enc, UnifiedRTFEncoder):
            return enc
    except Exception:  # noqa: BLE001
        pass
    return UnifiedRTFEncoder.__new__(UnifiedRTFEncoder)


class ProbeEnc:
    """encoding service whose component encoders ask for the colour index of every used colour, like the real ones"""

    def __init__(self, used, log):
        self.used, self.log = used, log

    def _probe(self, site):
        self.log.append((site, {n: Utils._get_color_index(n) for n in self.used}))
        return site

    def encode_document_start(self): return "{START"
    def encode_font_table(self): return "{FONTS}"

    def encode_color_table(self, document=None, used_colors=None):
        if used_colors is None:
            used_colors = svc.collect_document_colors(document)
        self.table = svc.generate_rtf_color_table(used_colors)
        return self.table

    def encode_page_header(self, cfg, method="line"): return "{" + self._probe("HEADER") + "}"
    def encode_page_footer(self, cfg, method="line"): return "{" + self._probe("FOOTER") + "}"
    def encode_page_settings(self, page): return "SETTINGS"
    def encode_title(self, t, method="line"): return self._probe("TITLE")
    def encode_subline(self, t, method="line"): return self._probe("SUBLINE")
    def encode_footnote(self, f, page_number=None, page_col_width=None, border_style=None): return [self._probe("FOOTNOTE")]
    def encode_source(self, s, page_number=None, page_col_width=None, border_style=None): return [self._probe("SOURCE")]


def run_encode(path, used, where, raise_in_body=False, encode=True, doc=None):
    """run the real encode / _encode_multi_section / _encode_figure_only with probing services.
    returns (log of (site, {name: index}), colour table text, output or exception name)"""
    log = []
    enc = ProbeEnc(used, log)

    def body_section(document, df, rtf_body):
        enc._probe("BODY")
        if raise_in_body:
            raise ValueError("data not sorted")
        return ["CHUNK"]

    # the encoder object is obtained the way the public API obtains it (RTFEncodingEngine), so that an encoder shared
    # between calls/threads is shared here too; its services are replaced by probes for the duration of this call
    me = _public_encoder()
    saved_attrs = {k: me.__dict__.get(k, _MISSING) for k in ("encoding_service", "_encode_body_section", "figure_service")}
    me.encoding_service = enc
    me._encode_body_section = body_section
    me.figure_service = NS(_get_dimension=lambda d, i: 5.0,
                           _encode_single_figure=lambda data, fmt, w, h, align: enc._probe("FIGURE"))
    if doc is None:
        doc = make_doc(used, where, multi=(path == 1), figure=(path == 2))
    if path == 1:
        # _encode_multi_section builds per-section copies through pydantic's model_copy: stand in with namespaces
        doc.model_copy = lambda update=None: NS(**dict(doc.__dict__, **(update or {})))
        for comp in (doc.rtf_title, doc.rtf_footnote, doc.rtf_page_header, doc.rtf_page):
            comp.model_copy = (lambda c: (lambda: NS(**c.__dict__)))(comp)
        for b in doc.rtf_body:
            b.new_page = False
            b.border_bottom = [[""]]
        doc.df = [NS(shape=(1, 1)), NS(shape=(1, 1))]
        doc.rtf_footnote.border_bottom = [[""]]
    import rtflite.figure as figmod
    saved = swapped((figmod.rtf_read_figure, lambda paths: ([b"x"] * len(paths), ["png"] * len(paths))))
    saved.__enter__()
    try:
        try:
            out = me.encode(doc) if encode else "not encoded"
        except ValueError as e:
            out = "raised:" + str(e)
    finally:
        saved.__exit__()
        for k, v in saved_attrs.items():
            if v is _MISSING:
                me.__dict__.pop(k, None)
            else:
                me.__dict__[k] = v
    run_encode.last_doc = doc
    return log, getattr(enc, "table", ""), out


def snapshot(doc):
    """value snapshot of every component namespace reachable from the document (to detect writes into caller objects)"""
    def snap(o):
        if isinstance(o, NS):
            return {k: snap(v) for k, v in o.__dict__.items() if not callable(v)}
        if isinstance(o, (list, tuple)):
            return [snap(x) for x in o]
        return o if isinstance(o, (str, int, float, bool, type(None))) else type(o).__name__
    return snap(doc)


# ---------------------------------------------------------------------------------------------------------
# C15: another thread as a nondeterministic environment acting through the colour API at a chosen call boundary
# ---------------------------------------------------------------------------------------------------------
import threading  # noqa: E402
from rtflite.services.color_service import ColorService  # noqa: E402

API_POINTS = ["get_rtf_color_index", "set_document_context", "clear_document_context", "collect_document_colors",
              "generate_rtf_color_table"]


def in_other_thread(fn):
    """run fn to completion on a REAL second thread (one atomic step of thread B between two steps of thread A)"""
    err = []

    def target():
        try:
            fn()
        except Exception as e:  # noqa: BLE001
            err.append(e)
    t = threading.Thread(target=target)
    t.start()
    t.join()
    if err:
        raise err[0]


def run_interleaved(path, used, where, schedule, observer=None, doc=None, raise_in_body=False):
    """encode document A (palette `used`) while thread B acts at chosen call boundaries.
    schedule: list of (k, op) - before A's k-th call into the colour API, B performs op() on its own thread.
    observer(k): called at EVERY such boundary (what any other thread could see at that moment)."""
    counter = {"n": 0}
    me = threading.get_ident()
    saved = {name: getattr(ColorService, name) for name in API_POINTS}

    def wrap(name):
        orig = saved[name]

        def hooked(self, *a, **kw):
            if threading.get_ident() == me:
                k = counter["n"]
                counter["n"] += 1
                if observer is not None:
                    observer(k)
                for kk, op in schedule:
                    if kk == k:
                        in_other_thread(op)
            return orig(self, *a, **kw)
        return hooked

    for name in API_POINTS:
        setattr(ColorService, name, wrap(name))
    try:
        res = run_encode(path, used, where, doc=doc, raise_in_body=raise_in_body)
    finally:
        for name, fn in saved.items():
            setattr(ColorService, name, fn)
    return res, counter["n"]


def shared_objects_stable(path, used, where, raise_in_body=False):
    """encode a document whose component objects may be shared with documents other threads are encoding: at every call
    boundary of the encode (and after it returned or raised) those caller-owned objects must hold the values they had when
    the encode started.  Returns the list of boundaries at which they did not."""
    doc = make_doc(used, where, multi=(path == 1), figure=(path == 2))

    def owned():
        comps = [doc.rtf_page, doc.rtf_title, doc.rtf_footnote, doc.rtf_page_header, doc.rtf_column_header]
        if doc.rtf_body is not None:
            comps.append(doc.rtf_body)
        return snapshot(comps)
    base = []
    bad = []

    def observer(k):
        if not base:
            base.append(owned())          # first boundary = entry of encode (the harness has finished preparing the document)
        elif owned() != base[0]:
            bad.append(k)
    res, calls = run_interleaved(path, used, where, [], observer=observer, doc=doc, raise_in_body=raise_in_body)
    if base and owned() != base[0]:
        bad.append("after")
    return bad, calls


def b_op(kind, palette):
    """what thread B's own encode does, seen from A at a preemption:
    0 = B has started (context set); 1 = B has started and resolved its colours (set + the lookups its components make);
    2 = B ran a complete single-table encode (set, lookups, table, clear) through the same public entry points"""
    def started():
        svc.set_document_context(used_colors=list(palette))

    def resolved():
        svc.set_document_context(used_colors=list(palette))
        for n in palette:
            Utils._get_color_index(n)

    def whole():
        run_encode(0, [n for n in palette if n in NAMES], [1] * len([n for n in palette if n in NAMES]))
    return [started, resolved, whole][kind]
