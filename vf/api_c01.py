"""C01 witnesses: whole documents over a seeded sample of the configuration product, read back by the independent reader."""
import itertools
import os
import random
import shutil
import tempfile

from . import rtfread as R


def witnesses(tier="quick", seed=0):
    import polars as pl
    import rtflite as rtf
    from .api_c14 import PNG
    rnd = random.Random(seed)
    d = tempfile.mkdtemp(prefix="vf-c01-")
    viol, n, samples = [], 0, []
    try:
        fig = os.path.join(d, "f.png")
        open(fig, "wb").write(PNG)
        frames = {
            "plain": pl.DataFrame({"g": ["A", "A", "B", "B", "B"], "x": ["1", " 2", "3 ", "4", "5"], "y": [1.5, None, 3.0, 4.25, 5.0]}),
            "empty": pl.DataFrame({"g": [], "x": []}, schema={"g": pl.Utf8, "x": pl.Utf8}),
            "one": pl.DataFrame({"g": ["A"], "x": ["only"]}),
            "ints": pl.DataFrame({"g": ["A", "B"], "x": [1, 2], "z": [None, 7]}),
        }
        opts = {
            "title": [None, "T", ["T1", "T2"]], "subline": [None, "S"], "header": ["default", "explicit", "multi", "none", "as_colheader_false"],
            "footnote": [None, "table", "par"], "source": [None, "table", "par"], "pagehf": [False, True],
            "place": ["first", "last", "all"], "orient": ["portrait", "landscape"], "nrow": [3, 6, 40],
            "group": [None, "page_by", "page_by_new", "page_by_first_row", "subline_by", "group_by"], "size": [9, 9.5, 12],
            "shape": ["scalar", "vector", "matrix"],
        }
        keys = list(opts)
        combos = []
        for _ in range(60 if tier == "quick" else 400):
            combos.append({k: rnd.choice(opts[k]) for k in keys})
        for fname, cfg in [(rnd.choice(list(frames)), c) for c in combos]:
            df = frames[fname]
            ncol = df.shape[1]
            kw = {}
            if cfg["title"]:
                kw["rtf_title"] = rtf.RTFTitle(text=cfg["title"], text_font_size=cfg["size"])
            if cfg["subline"]:
                kw["rtf_subline"] = rtf.RTFSubline(text=cfg["subline"])
            body = {}
            g = cfg["group"]
            if fname != "empty" or g is None:
                if g == "page_by":
                    body.update(page_by=["g"])
                elif g == "page_by_new":
                    body.update(page_by=["g"], new_page=True)
                elif g == "page_by_first_row":
                    body.update(page_by=["g"], new_page=True, pageby_row="first_row")
                elif g == "subline_by":
                    body.update(subline_by=["g"])
                elif g == "group_by":
                    body.update(group_by=["g"])
            if cfg["shape"] == "scalar":
                body.update(text_font_size=cfg["size"], text_format="b")
            elif cfg["shape"] == "vector":
                body.update(text_justification=[["l", "c", "r"][:ncol]])
            else:
                body.update(text_format=[["b"] * ncol for _ in range(max(1, df.shape[0]))])
            if cfg["header"] == "as_colheader_false":
                body.update(as_colheader=False)
            kw["rtf_body"] = rtf.RTFBody(**body)
            shown = ncol - (1 if g in ("page_by", "page_by_first_row", "subline_by") and "page_by" in body or "subline_by" in body else 0)
            shown = max(shown, 1)
            if cfg["header"] == "explicit":
                kw["rtf_column_header"] = [rtf.RTFColumnHeader(text=["H%d" % i for i in range(shown)])]
            elif cfg["header"] == "multi":
                kw["rtf_column_header"] = [rtf.RTFColumnHeader(text=["Span"], col_rel_width=[1]),
                                           rtf.RTFColumnHeader(text=["H%d" % i for i in range(shown)])]
            elif cfg["header"] == "none":
                kw["rtf_column_header"] = []
            if cfg["footnote"]:
                kw["rtf_footnote"] = rtf.RTFFootnote(text="fn", as_table=cfg["footnote"] == "table")
            if cfg["source"]:
                kw["rtf_source"] = rtf.RTFSource(text="src", as_table=cfg["source"] == "table")
            if cfg["pagehf"]:
                kw["rtf_page_header"] = rtf.RTFPageHeader()
                kw["rtf_page_footer"] = rtf.RTFPageFooter(text="foot")
            kw["rtf_page"] = rtf.RTFPage(orientation=cfg["orient"], nrow=cfg["nrow"], page_title=cfg["place"], page_footnote=cfg["place"],
                                         page_source=cfg["place"])
            n += 1
            try:
                doc = rtf.RTFDocument(df=df, **kw)
            except ValueError:
                continue            # not an accepted configuration
            try:
                text = doc.rtf_encode()
                errs = R.wellformed_errors(R.read(text))
            except Exception as e:  # noqa: BLE001
                errs = ["rtf_encode raised %s: %s" % (type(e).__name__, str(e)[:150])]
            if len(samples) < 3:
                samples.append({"frame": fname, "config": cfg, "errors": errs[:2]})
            if errs:
                viol.append({"args": {"frame": fname, "config": cfg}, "verdict": "; ".join(errs[:3])})
        # multi-section and figure documents
        for nfig, place in itertools.product((1, 2, 3), ("first", "last", "all")):
            n += 1
            try:
                text = rtf.RTFDocument(rtf_figure=rtf.RTFFigure(figures=[fig] * nfig, fig_width=[2.0, 3.0], fig_height=1.5),
                                       rtf_title=rtf.RTFTitle(text="F"), rtf_footnote=rtf.RTFFootnote(text="fn", as_table=False),
                                       rtf_page=rtf.RTFPage(page_title=place, page_footnote=place)).rtf_encode()
                errs = R.wellformed_errors(R.read(text))
            except Exception as e:  # noqa: BLE001
                errs = ["raised %s: %s" % (type(e).__name__, str(e)[:150])]
            if errs:
                viol.append({"args": {"figure_document": nfig, "place": place}, "verdict": "; ".join(errs[:3])})
        for hdrs in ("nested", "none"):
            n += 1
            try:
                text = rtf.RTFDocument(df=[frames["plain"], frames["ints"]], rtf_body=[rtf.RTFBody(), rtf.RTFBody(text_color="red")],
                                       rtf_column_header=[[rtf.RTFColumnHeader(text=["G", "X", "Y"])], [None]] if hdrs == "nested" else [[None], [None]],
                                       rtf_title=rtf.RTFTitle(text="M"), rtf_footnote=rtf.RTFFootnote(text="fn")).rtf_encode()
                errs = R.wellformed_errors(R.read(text))
            except Exception as e:  # noqa: BLE001
                errs = ["raised %s: %s" % (type(e).__name__, str(e)[:150])]
            if errs:
                viol.append({"args": {"multi_section": hdrs}, "verdict": "; ".join(errs[:3])})
    finally:
        shutil.rmtree(d, ignore_errors=True)
    return {"verdict": "confirmed" if not viol else "counterexample", "replayed": n, "violations": viol, "samples": samples}
