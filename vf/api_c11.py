"""C11 witnesses: texts through real documents, read back by the independent reader (visible text only)."""
import random

from .api_c10 import read_back


def visible(text, convert):
    from .h_text import ref_events, ref_latex
    if not convert:
        return text
    out = ""
    for e in ref_events(ref_latex_first(text), True):
        if isinstance(e, int):
            out += chr(e)
        elif e == ("line",):
            out += "\n"
    return out


def ref_latex_first(text):
    # the pipeline maps >= / <= first, then LaTeX commands; for witness texts the two do not overlap
    from .h_text import ref_latex
    return ref_latex(text)


def witnesses(tier="quick", seed=0):
    rnd = random.Random(seed)
    from rtflite.dictionary.unicode_latex import latex_to_char
    keys = [k for k in latex_to_char if k[1:2].isalpha() and "[" not in k]
    texts = ["x " + k + " y" for k in rnd.sample(keys, 12 if tier == "quick" else 80)]
    texts += ["m^2 and H_2O", "plain text, nothing to do", "\\mathbb{R} and \\mathbb{\\pi}"]
    newline_text = "line one\nline two"       # only with conversion on: a raw newline is a C0 control (outside C10/C11)
    viol, n, samples = [], 0, []
    for kind, default_on in (("cell", True), ("colheader", True), ("title", True), ("footnote_tab", True), ("source_par", True),
                             ("subline", False), ("page_footer", False)):
        for t in texts + [newline_text]:
            for conv in (None, True, False):
                if t == newline_text and (conv is False or (conv is None and not default_on)):
                    continue
                if "\\" in t and (conv is False or (conv is None and not default_on)):
                    continue        # raw backslashes are RTF syntax when conversion is off: outside (C10 excludes them)
                n += 1
                on = default_on if conv is None else conv
                try:
                    got, parsed, data = read_back(kind, t, conv)
                    ok = got == visible(t, on) and not parsed.errors
                except Exception as e:  # noqa: BLE001
                    got, ok = "%s: %s" % (type(e).__name__, e), False
                if len(samples) < 3:
                    samples.append({"kind": kind, "text": t, "text_convert": conv, "read_back": got, "ok": ok})
                if not ok:
                    viol.append({"args": {"kind": kind, "text": t, "conv": conv}, "verdict": "reader sees %r, expected %r" % (got, visible(t, on))})
    return {"verdict": "confirmed" if not viol else "counterexample", "replayed": n, "violations": viol, "samples": samples}
