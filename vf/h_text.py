"""Harness helpers for C11: an independent reference conversion written from the statement, and a reader-level decoder
of the emitted run into (code point / control event) lists so that two encodings of the same visible result agree."""
from rtflite.dictionary.unicode_latex import latex_to_char as TABLE
from vf.hlib import rtf_decode_text, units_to_codepoints, GluedDigit

LETTERS = "abcdefghijklmnopqrstuvwxyzABCDEFGHIJKLMNOPQRSTUVWXYZ"


def ref_latex(text):
    """statement: the longest letter run names the command; a directly following brace group is looked up together
    with it; unknown commands stay verbatim"""
    out = ""
    i, n = 0, len(text)
    while i < n:
        if text[i] == "\\" and i + 1 < n and text[i + 1] in LETTERS:
            j = i + 1
            while j < n and text[j] in LETTERS:
                j += 1
            name = text[i:j]
            if j < n and text[j] == "{":
                k = text.find("}", j)
                if k >= 0:
                    key = text[i:k + 1]
                    out += TABLE.get(key, key)
                    i = k + 1
                    continue
            out += TABLE.get(name, name)
            i = j
        else:
            out += text[i]
            i += 1
    return out


def ref_events(text, convert=True):
    """reader-level events of the text after conversion: code points, ('super',), ('sub',), ('line',)"""
    ev = []
    if not convert:
        return [ord(c) for c in text]
    i, n = 0, len(text)
    while i < n:
        two = text[i:i + 2]
        c = text[i]
        if two == ">=":
            ev.append(0x2265)
            i += 2
        elif two == "<=":
            ev.append(0x2264)
            i += 2
        elif c == "^":
            ev.append(("super",))
            i += 1
        elif c == "_":
            ev.append(("sub",))
            i += 1
        elif c == "\n":
            ev.append(("line",))
            i += 1
        else:
            ev.append(ord(c))
            i += 1
    return ev


def run_events(out):
    """events a reader derives from an emitted text run (None if not decodable)"""
    try:
        units = rtf_decode_text(out)
    except GluedDigit:
        return None
    if units is None:
        return None
    cps = units_to_codepoints(units)
    if cps is None:
        return None
    ev = []
    for u in cps:
        if isinstance(u, tuple):
            if u[0] == "ctl" and u[1] in ("super", "sub", "line"):
                ev.append((u[1],))
            else:
                ev.append(u)
        else:
            ev.append(u)
    return ev
