"""One obligation, one OS process.

usage: python -m vf.worker ch  <harness.py> <function> <timeout_s> <templates:0|1>
       python -m vf.worker py  <module:function> <json-kwargs>
       python -m vf.worker call <harness.py> <function> <json-kwargs>     (plain replay, no tracing)

Prints one line  VFRESULT <json>  on stdout.  Nothing here decides a property by sampling:
the 'ch' mode asks CrossHair (z3) for a counterexample over all paths of the harness function,
the 'py' mode runs an engine-B/C obligation that builds z3 queries from a trace of the real code.
"""
import ast
import importlib
import importlib.util
import json
import os
import sys
import time
import traceback

VERIF = os.path.dirname(os.path.dirname(os.path.abspath(__file__)))
if VERIF not in sys.path:
    sys.path.insert(0, VERIF)


def _load(path):
    d = os.path.dirname(os.path.abspath(path))
    if d not in sys.path:
        sys.path.insert(0, d)
    name = os.path.splitext(os.path.basename(path))[0]
    spec = importlib.util.spec_from_file_location(name, path)
    mod = importlib.util.module_from_spec(spec)
    sys.modules[name] = mod
    spec.loader.exec_module(mod)
    return mod


def parse_call_args(message, fname):
    """Extract keyword/positional args from 'when calling f(a = 1, b = "x") (which ...'."""
    key = "when calling " + fname + "("
    i = message.find(key)
    if i < 0:
        return None
    s = message[i + len("when calling "):]
    # shortest prefix that parses as a call expression
    for j in range(len(fname) + 1, len(s) + 1):
        if s[j - 1] != ")":
            continue
        try:
            node = ast.parse(s[:j], mode="eval").body
        except SyntaxError:
            continue
        if isinstance(node, ast.Call):
            pos = [ast.literal_eval(a) for a in node.args]
            kw = {k.arg: ast.literal_eval(k.value) for k in node.keywords}
            return {"pos": pos, "kw": kw}
    return None


def _glue_error(message, tb):
    """TypeError / AttributeError / NameError whose innermost frame is harness code (generated harness or /verif/vf),
    e.g. a recorder that lacks a newly added keyword argument: the harness is outdated, the property is not violated"""
    kind = message.split(":")[0].strip()
    if kind.endswith("ValidationError"):
        # a validating (pydantic) constructor was handed a stand-in or a symbolic proxy: the harness no longer intercepts
        # that constructor where the code under test now calls it
        import re
        return re.search(r"input_type=(Stub|FakeFrame|MetaFrame|Frame|PySeries|Series|PLStub|_FrameStub|PageData|Rec\w*|\w*Symbolic\w*)\b",
                         message + (tb or "")) is not None
    if kind not in ("TypeError", "AttributeError", "NameError"):
        return False
    files = [ln.strip() for ln in (tb or "").splitlines() if ln.strip().startswith("File ")]
    if not files:
        return False
    last = files[-1]
    if "/rtflite/" in last:
        # raised by the code under test (wherever its tree is checked out).  One exception: a signature TypeError is raised in
        # the CALLER's frame; when the callee it names is a harness recorder (a nested function, a lambda or a stand-in class of
        # /verif - i.e. not a function or class of the package) the harness is outdated, the property is not violated
        import re
        import sys
        m = re.match(r"TypeError: ([\w.<>]+)\(\) (got an unexpected|got multiple|takes|missing)", message.strip())
        if not m:
            return False
        qual = m.group(1)
        if "<locals>" in qual or "<lambda>" in qual:
            return True
        head = qual.split(".")[0]
        for name, mod in list(sys.modules.items()):
            if mod is not None and (name == "rtflite" or name.startswith("rtflite.")) and hasattr(mod, head):
                obj = getattr(mod, head)
                if getattr(obj, "__module__", "").startswith("rtflite"):
                    return False
        return True
    return ("/vf/" in last and VERIF in last) or "/h_" in last or "vf-" in last


class SolverMeter:
    def __init__(self):
        self.checks = 0
        self.seconds = 0.0

    def install(self):
        import z3

        meter = self
        orig = z3.Solver.check

        def check(slf, *a, **k):
            t = time.perf_counter()
            try:
                return orig(slf, *a, **k)
            finally:
                meter.checks += 1
                meter.seconds += time.perf_counter() - t

        z3.Solver.check = check


def run_ch(path, func, timeout, templates):
    meter = SolverMeter()
    meter.install()
    import collections

    from crosshair.core import analyze_function
    from crosshair.core_and_libs import run_checkables  # noqa: F401  (registers lib patches)
    from crosshair.options import AnalysisOptionSet
    from crosshair.statespace import MessageType

    if templates:
        import vf.ch_templates as tpl

        tpl.install()
    # CrossHair bypasses functools caches (every call goes to __wrapped__).  The code under test has none today; if a change
    # introduces one, its effect on later calls is part of the behaviour being decided, so the real wrapper stays in force.
    import functools
    from crosshair import core as _core
    _core._PATCH_REGISTRATIONS.pop(functools._lru_cache_wrapper.__call__, None)
    mod = _load(path)
    fn = getattr(mod, func)
    opts = AnalysisOptionSet(per_condition_timeout=float(timeout), report_all=True,
                             max_uninteresting_iterations=sys.maxsize)
    checkables = analyze_function(fn, opts)
    out = {"verdict": "inconclusive", "reason": "", "message": "", "args": None,
           "paths": 0, "queries": 0, "solver_s": 0.0, "state": ""}
    msgs = []
    t0 = time.time()
    for c in checkables:
        if hasattr(c, "options"):
            c.options.stats = collections.Counter()
        msgs.extend(c.analyze())
        if hasattr(c, "options") and c.options.stats is not None:
            out["paths"] += c.options.stats.get("num_paths", 0)
    out["wall_s"] = round(time.time() - t0, 3)
    out["queries"] = meter.checks
    out["solver_s"] = round(meter.seconds, 3)
    if not msgs:
        out["reason"] = "no conditions found"
        return out
    worst = max(msgs, key=lambda m: m.state)
    out["state"] = worst.state.name
    out["message"] = worst.message[:2000]
    if worst.state == MessageType.CONFIRMED:
        out["verdict"] = "confirmed"
    elif worst.state in (MessageType.EXEC_ERR, MessageType.POST_ERR) and _glue_error(worst.message, worst.traceback):
        out["reason"] = ("harness glue error (an exception of a kind typical for an outdated stand-in, raised from harness code, not "
                         "from rtflite): " + worst.message[:300])
    elif worst.state in (MessageType.EXEC_ERR, MessageType.POST_ERR) and worst.message.startswith("Unsupported:"):
        out["reason"] = "a stand-in does not model an operation the code under test now uses: " + worst.message[:300]
    elif worst.state in (MessageType.POST_FAIL, MessageType.EXEC_ERR, MessageType.POST_ERR):
        out["verdict"] = "counterexample"
        out["args"] = parse_call_args(worst.message, func)
        if out["args"] is None:
            out["verdict"] = "inconclusive"
            out["reason"] = "counterexample message could not be parsed: " + worst.message[:300]
    elif worst.state == MessageType.PRE_UNSAT:
        out["reason"] = "unable to meet precondition"
    elif worst.state == MessageType.CANNOT_CONFIRM:
        out["reason"] = "not confirmed within %ss" % timeout
    else:
        out["reason"] = worst.state.name + ": " + worst.message[:300]
    return out


def run_call(path, func, kwargs):
    mod = _load(path)
    fn = getattr(mod, func)
    try:
        r = fn(*kwargs.get("pos", []), **kwargs.get("kw", {}))
        return {"returned": repr(r)[:500], "truthy": bool(r) if r is not None else None,
                "is_none": r is None, "exception": None}
    except Exception as e:  # noqa: BLE001
        tb = traceback.format_exc()
        msg = type(e).__name__ + ": " + str(e)[:500]
        return {"returned": None, "truthy": None, "is_none": False, "exception": msg, "traceback": tb[-1500:],
                "glue": _glue_error(msg, tb)}


def run_py(target, kwargs):
    meter = SolverMeter()
    meter.install()
    modname, fname = target.split(":")
    mod = importlib.import_module(modname)
    t0 = time.time()
    out = getattr(mod, fname)(**kwargs)
    out.setdefault("wall_s", round(time.time() - t0, 3))
    out.setdefault("queries", meter.checks)
    out.setdefault("solver_s", round(meter.seconds, 3))
    return out


def main(argv):
    mode = argv[1]
    try:
        if mode == "ch":
            res = run_ch(argv[2], argv[3], float(argv[4]), argv[5] == "1")
        elif mode == "call":
            res = run_call(argv[2], argv[3], json.loads(argv[4]))
        elif mode == "py":
            res = run_py(argv[2], json.loads(argv[3]))
        else:
            raise SystemExit("bad mode")
    except Exception as e:  # noqa: BLE001
        res = {"verdict": "inconclusive", "reason": "worker crashed: %s: %s" % (type(e).__name__, e),
               "traceback": traceback.format_exc()[-3000:], "paths": 0, "queries": 0, "solver_s": 0.0}
    sys.stdout.write("\nVFRESULT " + json.dumps(res, default=repr) + "\n")
    sys.stdout.flush()


if __name__ == "__main__":
    main(sys.argv)
