"""Engine-B obligations: the real numeric code of rtflite traced into z3 (see vf/engb.py).
Each function is called through `vf.worker py vf.engb_obs:<name>` and returns a result dict
{verdict: confirmed|counterexample|inconclusive, args, reason, paths, samples, validated, replay}."""
from __future__ import annotations

import random
import re
from types import SimpleNamespace as NS

import z3
from vf.hlib import swapped

from . import engb
from .engb import F64, RNE, SFloat, SInt

KW = ["\\paperw", "\\paperh", "\\margl", "\\margr", "\\margt", "\\margb", "\\headery", "\\footery"]
GEOM_VARS = ["w", "h", "m0", "m1", "m2", "m3", "m4", "m5"]
PRIOR_VARS = ["n0", "n1", "n2", "n3", "n4", "n5"]


def _bits(x):
    return z3.fpToIEEEBV(x) if not z3.is_bv(x) else x


# ---------------------------------------------------------------------------------------------------
# C06-O4: page break restates the geometry of the document start
# ---------------------------------------------------------------------------------------------------
def _geom_strings(cfg, prior=None):
    """page-break block and document-start settings of cfg; when `prior` is given, a page break of an EARLIER document
    with the same paper size but other margins is encoded first (one-step history: nothing may be remembered)"""
    from rtflite.services.encoding_service import RTFEncodingService
    if prior is not None:
        old = RTFEncodingService()
        old.encode_page_break(prior, lambda: old.encode_page_margin(prior))
        old.encode_page_settings(prior)
    svc = RTFEncodingService()
    brk = svc.encode_page_break(cfg, lambda: svc.encode_page_margin(cfg))
    start = svc.encode_page_settings(cfg)
    return brk, start


def page_geometry(tier="quick", seed=0):
    import rtflite.core.constants as m3
    import rtflite.row as m4
    import rtflite.rtf.syntax as m2
    import rtflite.services.encoding_service as m1
    engb.reset("fp64")
    V = {n: z3.FP(n, F64) for n in GEOM_VARS + PRIOR_VARS}
    bounds = []
    for n in ("w", "h"):
        bounds += engb.fbounds(V[n], 1.0, 60.0)
    for n in GEOM_VARS[2:] + PRIOR_VARS:
        bounds += engb.fbounds(V[n], 0.0, 10.0)
    seeds = dict(w=8.5, h=11.0, m0=1.25, m1=1.0, m2=1.75, m3=1.25, m4=1.75, m5=1.00625,
                 n0=1.0, n1=1.0, n2=1.0, n3=1.0, n4=0.5, n5=0.5)

    def cfgs(vals, sym=True):
        mk = (lambda n: SFloat(vals[n], V[n])) if sym else (lambda n: vals[n])
        cfg = NS(width=mk("w"), height=mk("h"), margin=[mk("m%d" % i) for i in range(6)], orientation="portrait")
        prior = NS(width=mk("w"), height=mk("h"), margin=[mk("n%d" % i) for i in range(6)], orientation="portrait")
        return cfg, prior

    def run(vals):
        cfg, prior = cfgs(vals)
        with engb.shims(m1, m2, m3, m4):
            brk, start = _geom_strings(cfg, prior)
        return {"brk": brk, "start": start}

    paths, stats = engb.explore(run, V, bounds, seeds)
    out = {"paths": len(paths), "queries": stats["queries"], "solver_s": stats["solver_s"], "samples": [],
           "validated": 0, "notes": []}
    def validate():
        # translator validation: shadow values must equal what the plain code computes on plain floats
        rnd = random.Random(seed)
        vectors = [dict(w=11.0, h=8.5, m0=1.0, m1=1.0, m2=2.0, m3=1.25, m4=1.25, m5=1.25),
                   dict(w=8.27, h=11.69, m0=1.0, m1=1.0, m2=1.0, m3=1.0, m4=0.5, m5=0.5)]
        vectors += [dict(w=rnd.uniform(1, 60), h=rnd.uniform(1, 60), **{"m%d" % i: rnd.uniform(0, 10) for i in range(6)})
                    for _ in range(200 if tier == "thorough" else 60)]
        for vec in vectors:
            # validation vectors use prior margins EQUAL to the margins, so that a remembered block cannot masquerade as
            # a translation error; distinct paper sizes per vector
            vec.update({"n%d" % i: vec["m%d" % i] for i in range(6)})
            engb.reset("fp64")
            r = run(vec)
            holes = list(engb.Ctx.holes)
            plain = _geom_strings(*cfgs(vec, sym=False))
            for s_sym, s_plain in zip((r["brk"], r["start"]), plain):
                rendered = engb.HOLE_RE.sub(lambda m: str(int.__int__(holes[int(m.group(1))])), s_sym)
                if rendered != s_plain:
                    out.update(verdict="inconclusive", reason="proxy layer disagrees with the plain interpreter on %r" % (vec,))
                    return False
                # and the z3 term evaluates to the same number
                for m in engb.HOLE_RE.finditer(s_sym):
                    h = holes[int(m.group(1))]
                    sub = [(V[n], z3.FPVal(vec[n], F64)) for n in GEOM_VARS + PRIOR_VARS]
                    val = z3.simplify(z3.substitute(h.t, *sub))
                    if val.as_signed_long() != int.__int__(h):
                        out.update(verdict="inconclusive", reason="z3 term disagrees with the shadow value on %r" % (vec,))
                        return False
            out["validated"] += 1
        return True

    for conds, res, vals, holes, unsup in paths:
        if unsup:
            out.update(verdict="inconclusive", reason="unsupported operation in traced code: " + unsup)
            return out
        engb.Ctx.holes = holes
        pc = [c if t else z3.Not(c) for c, t in conds]
        bad = []
        names = dict(zip(KW, GEOM_VARS))
        for kw in KW:
            a = engb.hole_after(res["brk"], kw)
            b = engb.hole_after(res["start"], kw)
            if a is None or b is None:
                ca, cb = engb.concrete_after(res["brk"], kw), engb.concrete_after(res["start"], kw)
                out.update(verdict="inconclusive", reason="%s is not rendered from the symbolic input (break %r start %r)" % (kw, ca, cb))
                return out
            x = V[names[kw]]
            ideal = z3.fpToSBV(RNE, z3.fpRoundToIntegral(RNE, z3.fpMul(RNE, x, z3.FPVal(1440.0, F64))), engb.BV)
            bad.append(a.t != b.t)
            bad.append(b.t != ideal)
        r, model, dt = engb.solve(bounds + pc + [z3.Or(*bad)])
        out["queries"] += 1
        out["solver_s"] += dt
        out["samples"].append({"path": [str(c)[:80] for c in pc], "query": "exists geometry, earlier margins: break != start or start != round(in*1440)",
                               "result": r})
        if r == "sat":
            vals = {n: engb.model_float(model, V[n]) for n in GEOM_VARS + PRIOR_VARS}
            brk, start = _geom_strings(*cfgs(vals, sym=False))
            diffs = {kw: (engb.concrete_after(brk, kw), engb.concrete_after(start, kw), round(vals[names[kw]] * 1440))
                     for kw in KW}
            diffs = {k: v for k, v in diffs.items() if not (v[0] == v[1] == v[2])}
            if not diffs:
                out.update(verdict="inconclusive", reason="solver model %r does not reproduce on the plain interpreter" % vals)
                return out
            api = _geom_api(vals)
            if api is None:
                out.update(verdict="inconclusive", reason="unit counterexample %r not reproduced through RTFDocument" % vals, unconfirmed=vals)
                return out
            out.update(verdict="counterexample", args={"kw": vals}, replay={"unit": {k: list(v) for k, v in diffs.items()}, "api": api})
            return out
        if r != "unsat":
            out.update(verdict="inconclusive", reason="solver answered %s" % r)
            return out
    if not validate():
        return out
    # landscape flag (two concrete orientations)
    for orient in ("portrait", "landscape"):
        _, start = _geom_strings(NS(width=8.5, height=11.0, margin=[1] * 6, orientation=orient))
        if ("\\landscape" in start) != (orient == "landscape"):
            out.update(verdict="counterexample", args={"kw": {"orientation": orient}}, replay={"unit": start})
            return out
    out["verdict"] = "confirmed"
    return out


def _geom_api(vals):
    """through the public API: 2-page document, reader compares the settings after \\page with the document start"""
    import polars as pl
    import rtflite as rtf
    from . import rtfread as R
    try:
        def mk(pfx):
            return rtf.RTFDocument(df=pl.DataFrame({"a": ["1", "2", "3"]}),
                                   rtf_page=rtf.RTFPage(width=vals["w"], height=vals["h"], nrow=2, col_width=min(vals["w"], 1.0),
                                                        margin=[vals["%s%d" % (pfx, i)] for i in range(6)]))
        mk("n").rtf_encode()          # the earlier document of the one-step history
        d = R.read(mk("m").rtf_encode())
    except Exception as e:  # noqa: BLE001
        return None
    if len(d.pages) < 2:
        return None
    for pg in d.pages[1:]:
        for k in R.PAGE_WORDS:
            if pg.break_settings.get(k) != d.settings.get(k):
                return {"word": k, "document_start": d.settings.get(k), "after_page_break": pg.break_settings.get(k)}
    return None


# ---------------------------------------------------------------------------------------------------
# inch_to_twip lemmas (C08-O2, C01-O2)
# ---------------------------------------------------------------------------------------------------
def twip_lemmas(tier="quick", seed=0):
    import rtflite.core.constants as m3
    from rtflite.core.constants import RTFMeasurements
    engb.reset("fp64")
    x, y = z3.FP("x", F64), z3.FP("y", F64)
    with engb.shims(m3):
        tx = RTFMeasurements.inch_to_twip(SFloat(1.0, x))
        ty = RTFMeasurements.inch_to_twip(SFloat(2.0, y))
    out = {"paths": 1, "queries": 0, "solver_s": 0.0, "samples": [], "validated": 0}
    if not isinstance(tx, SInt):
        out.update(verdict="inconclusive", reason="inch_to_twip did not return a traced integer")
        return out
    rnd = random.Random(seed)
    for _ in range(100):
        v = rnd.uniform(0, 60)
        if z3.simplify(z3.substitute(tx.t, (x, z3.FPVal(v, F64)))).as_signed_long() != RTFMeasurements.inch_to_twip(v):
            out.update(verdict="inconclusive", reason="term disagrees with the real function at %r" % v)
            return out
        out["validated"] += 1
    bx = engb.fbounds(x, 0.0, 60.0) + engb.fbounds(y, 0.0, 60.0)
    prod = z3.fpMul(RNE, x, z3.FPVal(1440.0, F64))
    as_fp = z3.fpSignedToFP(RNE, tx.t, F64)
    lemmas = [
        ("positive: x >= 1/1440 => twip(x) >= 1", [z3.fpGEQ(x, z3.FPVal(1.0 / 1440.0, F64)), tx.t < 1]),
        ("nearest: |twip(x) - fl(1440 x)| <= 1/2", [z3.fpGT(z3.fpAbs(z3.fpSub(RNE, as_fp, prod)), z3.FPVal(0.5, F64))]),
    ]
    if tier == "thorough":
        # two-variable FP query: z3 answers unknown, cvc5 decides it in about a minute
        lemmas.append(("monotone: x <= y => twip(x) <= twip(y)", [z3.fpLEQ(x, y), tx.t > ty.t]))
    for name, neg in lemmas:
        if name.startswith("monotone"):
            r, dt = engb.solve_cvc5(bx + neg, timeout_s=400)
            model = None
            if r == "sat":
                out.update(verdict="inconclusive", reason="cvc5 reports a counterexample to monotonicity but gives no model here")
                return out
        else:
            r, model, dt = engb.solve(bx + neg)
        out["queries"] += 1
        out["solver_s"] += dt
        out["samples"].append({"lemma": name, "result": r, "solver": "cvc5" if name.startswith("monotone") else "z3"})
        if r == "sat":
            vx, vy = engb.model_float(model, x), engb.model_float(model, y)
            out.update(verdict="counterexample", args={"kw": {"x": vx, "y": vy, "lemma": name}},
                       replay={"twip_x": RTFMeasurements.inch_to_twip(vx), "twip_y": RTFMeasurements.inch_to_twip(vy)})
            return out
        if r != "unsat":
            out.update(verdict="inconclusive", reason="%s: solver answered %s" % (name, r))
            return out
    out["verdict"] = "confirmed"
    return out


# ---------------------------------------------------------------------------------------------------
# C08-O1: Utils._col_widths in exact real arithmetic
# ---------------------------------------------------------------------------------------------------
def col_widths(n=3, tier="quick", seed=0):
    from rtflite.row import Utils
    engb.reset("real")
    rel = [z3.Real("r%d" % i) for i in range(n)]
    W = z3.Real("W")
    bounds = [W >= 2, W <= 12]
    for r in rel:
        bounds += [r >= z3.RealVal("1/5"), r <= 10]
    rnd = random.Random(seed)
    out = {"paths": 1, "queries": 0, "solver_s": 0.0, "samples": [], "validated": 0}
    shadow_rel = [1.0 + i for i in range(n)]
    res = Utils._col_widths([SFloat(v, t) for v, t in zip(shadow_rel, rel)], SFloat(6.0, W))
    if engb.Ctx.conds or engb.Ctx.unsupported:
        out.update(verdict="inconclusive", reason="_col_widths branched on its inputs or used an untraced operation: %s" % engb.Ctx.unsupported)
        return out
    if len(res) != n or not all(isinstance(b, SFloat) for b in res):
        out.update(verdict="counterexample", args={"kw": {"n": n}}, replay={"returned": repr(res)[:200]})
        return out
    # validation of the trace against the real function on plain floats
    vecs = [([1.0] * n, 6.25), ([2.0, 1.0, 1.0][:n] + [1.0] * max(0, n - 3), 8.5)]
    vecs += [([rnd.uniform(0.2, 10) for _ in range(n)], rnd.uniform(2, 12)) for _ in range(40)]
    for rv, wv in vecs:
        plain = Utils._col_widths(rv, wv)
        sub = [(t, engb._fp(v)) for t, v in zip(rel, rv)] + [(W, engb._fp(wv))]
        for b, pv in zip(res, plain):
            val = z3.simplify(z3.substitute(b.t, *sub))
            num = float(val.numerator_as_long()) / float(val.denominator_as_long())
            if abs(num - pv) > 1e-9:
                out.update(verdict="inconclusive", reason="trace disagrees with the real function on %r" % ((rv, wv),))
                return out
        out["validated"] += 1
    T = z3.Sum(*rel) if n > 1 else rel[0]
    negs = []
    prev = z3.RealVal(0)
    for i, b in enumerate(res):
        negs.append(b.t <= prev)                                        # strictly increasing, positive
        negs.append(b.t * T != W * z3.Sum(*rel[: i + 1]) if i > 0 else b.t * T != W * rel[0])   # proportional
        prev = b.t
    negs.append(res[-1].t != W)                                         # last boundary = table width
    r, model, dt = engb.solve(bounds + [z3.Or(*negs)], timeout_ms=300000 if tier == "thorough" else 90000)
    out["queries"] += 1
    out["solver_s"] += dt
    out["samples"].append({"n": n, "query": "exists rel in [0.2,10]^n, W in [2,12]: not(increasing and proportional and last==W)", "result": r})
    if r == "sat":
        rv = [engb.model_float(model, t) for t in rel]
        wv = engb.model_float(model, W)
        plain = Utils._col_widths(rv, wv)
        tot = sum(rv)
        ok = all(abs(p - wv * sum(rv[: i + 1]) / tot) < 1e-6 for i, p in enumerate(plain)) and abs(plain[-1] - wv) < 1e-6 \
            and all(plain[i] < plain[i + 1] for i in range(n - 1))
        if ok:
            out.update(verdict="inconclusive", reason="model %r does not reproduce on the plain interpreter" % ((rv, wv),))
            return out
        out.update(verdict="counterexample", args={"kw": {"rel": rv, "W": wv}}, replay={"boundaries": plain})
        return out
    if r != "unsat":
        out.update(verdict="inconclusive", reason="solver answered %s" % r)
        return out
    out["verdict"] = "confirmed"
    return out


# ---------------------------------------------------------------------------------------------------
# C16-O5: figure display size
# ---------------------------------------------------------------------------------------------------
PNG = b"\x89PNG\r\n\x1a\n" + b"\x00\x00\x00\rIHDR" + (640).to_bytes(4, "big") + (480).to_bytes(4, "big") + b"\x08\x02\x00\x00\x00"


def figure_goals(tier="quick", seed=0):
    import rtflite.services.figure_service as fs
    from rtflite.services.figure_service import RTFFigureService
    engb.reset("fp64")
    w, h = z3.FP("w", F64), z3.FP("h", F64)
    bounds = engb.fbounds(w, 0.1, 40.0) + engb.fbounds(h, 0.1, 40.0)
    out = {"paths": 1, "queries": 0, "solver_s": 0.0, "samples": [], "validated": 0}
    with engb.shims(fs):
        s = RTFFigureService._encode_single_figure(PNG, "png", SFloat(5.0, w), SFloat(4.0, h), "center")
    if engb.Ctx.unsupported:
        out.update(verdict="inconclusive", reason=engb.Ctx.unsupported)
        return out
    gw, gh = engb.hole_after(s, "\\picwgoal"), engb.hole_after(s, "\\pichgoal")
    if gw is None or gh is None:
        out.update(verdict="inconclusive", reason="goal sizes are not rendered from the symbolic inputs: %r" % s[:120])
        return out
    if engb.concrete_after(s, "\\picw") != 640 or engb.concrete_after(s, "\\pich") != 480:
        out.update(verdict="counterexample", args={"kw": {"what": "pixel dimensions"}}, replay={"emitted": s[:120]})
        return out
    rnd = random.Random(seed)
    for _ in range(60):
        vw, vh = rnd.uniform(0.1, 40), rnd.uniform(0.1, 40)
        plain = RTFFigureService._encode_single_figure(PNG, "png", vw, vh, "center")
        for hole, var, val, kw in ((gw, w, vw, "\\picwgoal"), (gh, h, vh, "\\pichgoal")):
            if z3.simplify(z3.substitute(hole.t, (var, z3.FPVal(val, F64)))).as_signed_long() != engb.concrete_after(plain, kw):
                out.update(verdict="inconclusive", reason="trace disagrees with the real function at %r" % val)
                return out
        out["validated"] += 1
    for hole, var, name in ((gw, w, "width"), (gh, h, "height")):
        ideal = z3.fpMul(RNE, var, z3.FPVal(1440.0, F64))
        diff = z3.fpAbs(z3.fpSub(RNE, z3.fpSignedToFP(RNE, hole.t, F64), ideal))
        r, model, dt = engb.solve(bounds + [z3.fpGEQ(diff, z3.FPVal(1.0, F64))])
        out["queries"] += 1
        out["solver_s"] += dt
        out["samples"].append({"query": "exists %s in [0.1,40]: |goal - in*1440| >= 1" % name, "result": r})
        if r == "sat":
            v = engb.model_float(model, var)
            plain = RTFFigureService._encode_single_figure(PNG, "png", v, v, "center")
            got = engb.concrete_after(plain, "\\picwgoal")
            if abs(got - v * 1440) < 1:
                out.update(verdict="inconclusive", reason="model %r does not reproduce" % v)
                return out
            out.update(verdict="counterexample", args={"kw": {name: v}}, replay={"goal": got, "inches_x_1440": v * 1440})
            return out
        if r != "unsat":
            out.update(verdict="inconclusive", reason="solver answered %s" % r)
            return out
    out["verdict"] = "confirmed"
    return out


# ---------------------------------------------------------------------------------------------------
# C20-O1: unit conversions of get_string_width (Pillow stubbed by an arbitrary px >= 0)
# ---------------------------------------------------------------------------------------------------
def strwidth_units(tier="quick", seed=0):
    import rtflite.strwidth as sw
    engb.reset("fp64")
    px, dpi = z3.FP("px", F64), z3.FP("dpi", F64)
    bounds = engb.fbounds(px, 0.0, 1.0e6) + engb.fbounds(dpi, 36.0, 600.0)
    out = {"paths": 1, "queries": 0, "solver_s": 0.0, "samples": [], "validated": 0}
    seen = []

    class FakeFont:
        def getlength(self, text):
            return SFloat(10.0, px)

    saved = swapped((__import__("PIL.ImageFont", fromlist=["x"]), NS(truetype=lambda path, size=None: (seen.append((path, size)), FakeFont())[1])))
    saved.__enter__()
    dpi2 = z3.FP("dpi2", F64)
    bounds += engb.fbounds(dpi2, 36.0, 600.0)
    try:
        res = {u: sw.get_string_width("abc", font=1, font_size=9, unit=u, dpi=SFloat(72.0, dpi)) for u in ("px", "in", "mm")}
        # one-step history: the same text/font/size/unit measured again at ANOTHER dpi must not remember the first answer
        res2 = {u: sw.get_string_width("abc", font=1, font_size=9, unit=u, dpi=SFloat(300.0, dpi2)) for u in ("px", "in", "mm")}
    finally:
        saved.__exit__()
    if engb.Ctx.unsupported or engb.Ctx.conds:
        out.update(verdict="inconclusive", reason="untraced operation or branch: %s" % engb.Ctx.unsupported)
        return out
    if not all(isinstance(v, SFloat) for v in list(res.values()) + list(res2.values())):
        out.update(verdict="inconclusive", reason="results are not traced floats")
        return out
    inch = z3.fpDiv(RNE, px, dpi)
    checks = [
        ("px is the measured length", [z3.Not(z3.fpEQ(res["px"].t, px))]),
        ("in == px/dpi", [z3.Not(_bits(res["in"].t) == _bits(inch))]),
        ("mm == in*25.4", [z3.Not(_bits(res["mm"].t) == _bits(z3.fpMul(RNE, res["in"].t, z3.FPVal(25.4, F64))))]),
        ("second measurement at another dpi: in == px/dpi2", [z3.Not(_bits(res2["in"].t) == _bits(z3.fpDiv(RNE, px, dpi2)))]),
        ("second measurement at another dpi: mm == (px/dpi2)*25.4",
         [z3.Not(_bits(res2["mm"].t) == _bits(z3.fpMul(RNE, z3.fpDiv(RNE, px, dpi2), z3.FPVal(25.4, F64))))]),
        ("second measurement: px unchanged", [z3.Not(z3.fpEQ(res2["px"].t, px))]),
        ("non-negative", [z3.Or(z3.fpLT(res["px"].t, z3.FPVal(0.0, F64)), z3.fpLT(res["in"].t, z3.FPVal(0.0, F64)),
                                z3.fpLT(res["mm"].t, z3.FPVal(0.0, F64)))]),
    ]
    for name, neg in checks:
        r, model, dt = engb.solve(bounds + neg)
        out["queries"] += 1
        out["solver_s"] += dt
        out["samples"].append({"query": name, "result": r})
        if r == "sat":
            vp, vd, vd2 = engb.model_float(model, px), engb.model_float(model, dpi), engb.model_float(model, dpi2)
            # replay on the plain interpreter with Pillow stubbed by the model's px
            class PlainFont:
                def getlength(self, text):
                    return vp
            saved = swapped((__import__("PIL.ImageFont", fromlist=["x"]), NS(truetype=lambda path, size=None: PlainFont())))
            saved.__enter__()
            try:
                first = {u: sw.get_string_width("abd", font=1, font_size=9, unit=u, dpi=vd) for u in ("px", "in", "mm")}
                second = {u: sw.get_string_width("abd", font=1, font_size=9, unit=u, dpi=vd2) for u in ("px", "in", "mm")}
            finally:
                saved.__exit__()
            ok = (first["px"] == vp and first["in"] == vp / vd and first["mm"] == (vp / vd) * 25.4 and second["px"] == vp
                  and second["in"] == vp / vd2 and second["mm"] == (vp / vd2) * 25.4)
            if ok:
                out.update(verdict="inconclusive", reason="model for clause %r does not reproduce on the plain interpreter" % name)
                return out
            out.update(verdict="counterexample", args={"kw": {"px": vp, "dpi": vd, "dpi2": vd2, "clause": name}},
                       replay={"first": first, "second": second})
            return out
        if r != "unsat":
            out.update(verdict="inconclusive", reason="%s: solver answered %s" % (name, r))
            return out
    out["verdict"] = "confirmed"
    return out
