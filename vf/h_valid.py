"""Harness helpers for C19: run the Python-level validators of a pydantic model field directly (discovered through
__pydantic_decorators__, so renames do not break the harness) or through the public constructor."""
import inspect

from vf.fakes import Stub as NS


def _callables(cls, field, mode):
    out = []
    for name, dec in cls.__pydantic_decorators__.field_validators.items():
        if field in dec.info.fields and dec.info.mode == mode:
            fn = getattr(cls, name)
            npar = len(inspect.signature(fn).parameters)
            if npar >= 2:
                out.append(lambda v, fn=fn: fn(v, NS(field_name=field, data={}, mode="python", config=None, context=None)))
            else:
                out.append(fn)
    return out


def run_validators(cls, field, value):
    """before-validators, then after-validators of `field` (pydantic-core's own type coercion in between is not run)"""
    for f in _callables(cls, field, "before"):
        value = f(value)
    for f in _callables(cls, field, "after"):
        value = f(value)
    return value


def _outcome_once(fn):
    try:
        fn()
    except ValueError:
        return "ValueError"
    except FileNotFoundError:
        return "FileNotFoundError"
    except Exception as e:  # noqa: BLE001
        if isinstance(e, (TypeError, AttributeError, NameError)) and _raised_in_harness(e):
            raise          # an outdated stand-in / call signature of the harness, not behaviour of the code under test
        return type(e).__name__
    return "ok"


def _raised_in_harness(e):
    """the innermost frame of the traceback is harness code (generated harness or vf/), not rtflite"""
    tb = e.__traceback__
    last = None
    while tb is not None:
        last = tb.tb_frame.f_code.co_filename
        tb = tb.tb_next
    if last is None or "/rtflite/" in last:
        return False
    return "/vf/" in last or "/h_" in last or "vf-" in last or "<string>" in last


def outcome(fn):
    """outcome of fn(), evaluated TWICE in a row: validation must not depend on having seen the value before
    (a value rejected once is rejected again, an accepted one is accepted again)"""
    first = _outcome_once(fn)
    second = _outcome_once(fn)
    return first if first == second else "unstable: first %s, then %s" % (first, second)


KINDS = {
    # kind: (fields, candidates, number of legal candidates at the front)
    "border": (["border_left", "border_right", "border_top", "border_bottom", "border_first", "border_last"],
               ["single", "", "double", "dash-dotted", "solid", "Single", "none"], 4),
    "color": (["text_color", "text_background_color", "border_color_left", "border_color_right", "border_color_top",
               "border_color_bottom", "border_color_first", "border_color_last"],
              ["red", "", "blue", "black", "rd", "Red", "#ff0000"], 4),
    "just": (["text_justification", "cell_justification"], ["l", "c", "r", "j", "d", "", "x", "L", "left"], 6),
    "vjust": (["cell_vertical_justification"], ["top", "center", "bottom", "", "merge_first", "middle", "Top"], 5),
    "format": (["text_format"], ["", "b", "bi", "^_", "x", "bx", "B"], 4),
}
TEXT_ONLY = {"color": ["text_color", "text_background_color"], "just": ["text_justification"], "format": ["text_format"]}
NUMERIC = {
    "font": (["text_font"], "1 <= v <= 10", 1),
    "size": (["text_font_size"], "v > 0", 2),
    "positive": (["col_rel_width", "border_width", "cell_height", "cell_nrow"], "v > 0", 2),
}
