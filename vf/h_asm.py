"""Harness helpers for C17: assemble_rtf on an in-memory file system with files built from a line-class grammar G of
rtflite output (validated against real rtf_encode() outputs on every run by vf.api_c17:grammar)."""
import rtflite.assemble as asm
from vf.fakes import Stub as NS


class MemFS:
    def __init__(self, files):
        self.files = dict(files)          # path -> list of lines
        self.written = {}
        self.events = []

    def exists(self, p):
        self.events.append(("exists", p))
        return p in self.files

    def open(self, p, mode="r", encoding=None, **kw):
        fs = self
        self.events.append(("open", p, mode))
        if "w" in mode:
            class W:
                def __enter__(s): return s
                def __exit__(s, *a): return False
                def writelines(s, lines): fs.written.setdefault(p, []).extend(list(lines))
                def write(s, text): fs.written.setdefault(p, []).append(text)
            fs.written.setdefault(p, [])
            return W()
        if p not in self.files:
            raise FileNotFoundError(p)
        data = list(self.files[p])

        class Rd:
            def __enter__(s): return s
            def __exit__(s, *a): return False
            def readlines(s): return list(data)
            def read(s): return "".join(data)
            def __iter__(s): return iter(data)
        return Rd()


def run_assemble(files, order, out="out.rtf"):
    """assemble_rtf(order, out) over the in-memory files; returns (written text or None, exception name or None, fs)"""
    fs = MemFS(files)
    saved_open = asm.__dict__.get("open")
    saved_os = asm.os
    asm.open = fs.open
    asm.os = NS(path=NS(exists=fs.exists))
    err = None
    try:
        try:
            asm.assemble_rtf(list(order), out)
        except FileNotFoundError:
            err = "FileNotFoundError"
    finally:
        asm.os = saved_os
        if saved_open is None:
            del asm.open
        else:
            asm.open = saved_open
    text = "".join(fs.written[out]) if out in fs.written else None
    return text, err, fs


# ---- grammar G -------------------------------------------------------------------------------------------
BODY_CLASSES = 5


def body_line(cls, tag):
    """one body unit (1 or 2 physical lines) of class cls carrying the identifying tag"""
    if cls == 0:
        return ["\\trowd\\cellx9000 " + tag + "\\cell\\row\n"]
    if cls == 1:
        return ["{\\pard\\ql " + tag + "\\par}\n"]
    if cls == 2:
        return ["\n", tag + "\n"]
    if cls == 3:
        return ["{\\pict\\pngblip " + tag + "\n", "0a0b0c}\n"]
    return ["\\paperw12240\\paperh15840 " + tag + "\n"]


def make_file(fid, nfonts, merged, colortbl, classes):
    """a file of grammar G: preamble (figure documents are written without line breaks between the document start, the
    font table and what follows: `merged`), nfonts font-table lines containing 'fcharset', the brace closing the font
    table, an optional colour table, body units, final '}'.
    Returns (lines, tail) where tail is the text after the font table without the final brace."""
    lines = ["{\\rtf1\\ansi\n"]
    first_font = "{\\fonttbl{\\f0\\froman\\fcharset1\\fprq2 Times;}\n"
    if merged:
        lines.append("\\deff0\\deflang1033" + first_font)
    else:
        lines += ["\\deff0\\deflang1033\n", first_font]
    for j in range(1, nfonts):
        lines.append("{\\f%d\\fswiss\\fcharset0\\fprq2 Arial;}\n" % j)
    tail = []
    if colortbl:
        tail += ["{\\colortbl;\n", "\\red255\\green0\\blue0;\n", "}\n"]
    for k, c in enumerate(classes):
        tail += body_line(c, "F%dU%d" % (fid, k))
    if merged and colortbl:
        lines.append("}" + tail[0])
        lines += tail[1:]
    else:
        lines.append("}\n")
        lines += tail
    lines.append("}")
    return lines, "".join(tail)


def depth_profile_ok(text):
    """group depth is positive everywhere inside and returns to 0 exactly at the last character"""
    d = 0
    for i, ch in enumerate(text):
        if ch == "{":
            d += 1
        elif ch == "}":
            d -= 1
            if d < 0:
                return False
            if d == 0 and i != len(text) - 1:
                return False
    return d == 0
