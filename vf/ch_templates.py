"""Symbolic templates: keep CrossHair's symbolic ints symbolic across rendering.

CrossHair 0.0.110 realises a SymbolicInt when it is passed to format()/str()
(f-strings included).  Importing this module *inside the CrossHair process* replaces the
registered patches for ``format`` and ``str``: a SymbolicInt rendered with an empty format
spec becomes the token  L + k + R  (two private-use delimiters around the hole number k) and
the int itself is kept, still symbolic, in HOLES[k].

Soundness restriction (DESIGN.md 3.1): two holes are different concrete tokens even when
their ints are equal, so this is only enabled in *emitter* harnesses, where rendered numbers
are written to the output and never compared/parsed afterwards.  Such harnesses assert
``count_holes(output) == len(HOLES)``.
"""
import re

import crosshair.core as core
from crosshair.libimpl import builtinslib as bl
from crosshair.tracers import NoTracing

L, R = "\ue000", "\ue001"
HOLES = []
HOLE_RE = re.compile(L + r"(\d+)" + R)


def reset():
    HOLES.clear()


SYM_INTS = tuple(c for c in (getattr(bl, "SymbolicInt", None), getattr(bl, "SymbolicBoundedInt", None)) if c is not None)


def _is_sym_int(obj):
    return isinstance(obj, SYM_INTS)


def _hole(obj):
    HOLES.append(obj)
    return f"{L}{len(HOLES) - 1}{R}"


def vf_format(obj, format_spec=""):
    with NoTracing():
        if _is_sym_int(obj) and type(format_spec) is str and format_spec == "":
            return _hole(obj)
        if isinstance(format_spec, bl.AnySymbolicStr):
            format_spec = bl.realize(format_spec)
        if format_spec in ("", "s") and isinstance(obj, bl.AnySymbolicStr):
            return obj
        obj = bl.deep_realize(obj)
        result = bl.invoke_dunder(obj, "__format__", format_spec)
        if result is not bl._MISSING:
            return result
        return format(obj, format_spec)


def vf_str(*a):
    with NoTracing():
        if len(a) == 1:
            (self,) = a
            if _is_sym_int(self):
                return _hole(self)
            if isinstance(self, bl.AnySymbolicStr):
                return self
            with bl.ResumedTracing():
                return bl.invoke_dunder(self, "__str__")
        return str(*a)


def install():
    core._PATCH_REGISTRATIONS[format] = vf_format
    core._PATCH_REGISTRATIONS[str] = vf_str


def hole_value(tok):
    """'\\ue000 3 \\ue001' -> HOLES[3]; a plain decimal string -> int."""
    m = HOLE_RE.fullmatch(tok)
    if m:
        return HOLES[int(m.group(1))]
    return int(tok)


def count_holes(s):
    return len(HOLE_RE.findall(s))


# a number as it appears in emitted RTF under this patch: hole token or optional-minus digits
NUM = "(?:" + L + r"\d+" + R + r"|-?\d+)"
