"""Stand-ins for compiled-extension objects at the boundary of the units under symbolic execution.
Every use is listed in the evidence under `stubs` and validated by API replays / witnesses.

An operation a stand-in does not model raises Unsupported; the worker reports the obligation as
INCONCLUSIVE (never as a violation) so that a harmless refactoring which uses more of the library's API
cannot raise a false alarm."""


class Unsupported(AttributeError):
    """The code under test used an operation that the stand-in does not model."""


class Stub:
    """SimpleNamespace whose unknown attributes raise Unsupported (an AttributeError, so hasattr/getattr
    with default keep working)."""

    def __init__(self, **kw):
        self.__dict__.update(kw)

    @classmethod
    def of(cls, real_class, **kw):
        """stand-in for `self` of real_class: the given instance attributes, plus every method, property and class
        constant of the real class (so private helpers that a refactoring extracts resolve as on a real instance)"""
        obj = cls(**kw)
        obj.__dict__["_vf_real_class"] = real_class
        return obj

    def __getattr__(self, name):
        if name.startswith("__"):
            raise AttributeError(name)
        real = self.__dict__.get("_vf_real_class")
        if real is not None:
            import inspect
            import types
            try:
                raw = inspect.getattr_static(real, name)
            except AttributeError:
                raw = None
            else:
                if isinstance(raw, staticmethod):
                    return raw.__func__
                if isinstance(raw, classmethod):
                    return types.MethodType(raw.__func__, real)
                if isinstance(raw, property):
                    return raw.fget(self)
                if inspect.isfunction(raw):
                    return types.MethodType(raw, self)
                if not hasattr(raw, "__get__") or isinstance(raw, (int, float, str, bytes, tuple, frozenset, dict, list, set)):
                    return raw
        raise Unsupported("stand-in %r has no attribute %r" % (type(self).__name__, name))

    def __repr__(self):
        return "Stub(%s)" % ", ".join("%s=%r" % kv for kv in self.__dict__.items() if kv[0] != "_vf_real_class")

    def __eq__(self, other):
        return isinstance(other, Stub) and self.__dict__ == other.__dict__


class PySeries:
    """list-backed Series with the small element-wise vocabulary used on metadata frames.  Elements may be
    CrossHair symbolic values: every operation is ordinary Python arithmetic on them."""

    def __init__(self, vals, name=""):
        self._v = list(vals)
        self.name = name

    def _bin(self, other, f):
        if isinstance(other, PySeries):
            return PySeries([f(a, b) for a, b in zip(self._v, other._v)], self.name)
        return PySeries([f(a, other) for a in self._v], self.name)

    def __add__(self, o): return self._bin(o, lambda a, b: a + b)
    def __radd__(self, o): return self._bin(o, lambda a, b: b + a)
    def __sub__(self, o): return self._bin(o, lambda a, b: a - b)
    def __rsub__(self, o): return self._bin(o, lambda a, b: b - a)
    def __mul__(self, o): return self._bin(o, lambda a, b: a * b)
    def __floordiv__(self, o): return self._bin(o, lambda a, b: a // b)
    def __mod__(self, o): return self._bin(o, lambda a, b: a % b)
    def __eq__(self, o): return self._bin(o, lambda a, b: a == b)  # noqa: E704
    def __ne__(self, o): return self._bin(o, lambda a, b: a != b)
    def __lt__(self, o): return self._bin(o, lambda a, b: a < b)
    def __le__(self, o): return self._bin(o, lambda a, b: a <= b)
    def __gt__(self, o): return self._bin(o, lambda a, b: a > b)
    def __ge__(self, o): return self._bin(o, lambda a, b: a >= b)
    def __and__(self, o): return self._bin(o, lambda a, b: a and b)
    def __or__(self, o): return self._bin(o, lambda a, b: a or b)
    def __invert__(self): return PySeries([not a for a in self._v], self.name)
    __hash__ = None

    def __getitem__(self, i):
        if isinstance(i, slice):
            return PySeries(self._v[i], self.name)
        return self._v[i]

    def __len__(self):
        return len(self._v)

    def __iter__(self):
        return iter(self._v)

    def len(self):
        return len(self._v)

    def to_list(self):
        return list(self._v)

    def any(self):
        for a in self._v:
            if a:
                return True
        return False

    def all(self):
        for a in self._v:
            if not a:
                return False
        return True

    def sum(self):
        t = 0
        for a in self._v:
            t = t + a
        return t

    def min(self):
        return min(self._v) if self._v else None

    def max(self):
        return max(self._v) if self._v else None

    def cum_sum(self):
        out, t = [], 0
        for a in self._v:
            t = t + a
            out.append(t)
        return PySeries(out, self.name)

    def shift(self, k=1):
        n = len(self._v)
        if k >= 0:
            return PySeries([None] * min(k, n) + self._v[:max(0, n - k)], self.name)
        return PySeries(self._v[-k:] + [None] * min(-k, n), self.name)

    def alias(self, name):
        return PySeries(self._v, name)

    def unique(self):
        out = []
        for a in self._v:
            if a not in out:
                out.append(a)
        return PySeries(out, self.name)

    def sort(self):
        return PySeries(sorted(self._v), self.name)

    def cast(self, _t):
        return self

    def n_unique(self):
        return len(self.unique())

    def __getattr__(self, name):
        if name.startswith("__"):
            raise AttributeError(name)
        raise Unsupported("PySeries does not model .%s" % name)


FakeColumn = PySeries


class FakeFrame:
    """dict-of-lists frame: height, width, shape, columns, row(i[, named]), df[col][i], df[a:b], slice, select."""

    def __init__(self, data, order=None):
        # column order is kept in an explicit list: under CrossHair re-assigning a dict key may move it
        self.columns = list(order) if order is not None else list(data.keys())
        self._d = {k: list(data[k]) for k in self.columns}

    def _new(self, d, order=None):
        return type(self)(d, order=order if order is not None else [c for c in self.columns if c in d] + [c for c in d if c not in self.columns])

    @property
    def height(self):
        return len(next(iter(self._d.values()))) if self._d else 0

    @property
    def width(self):
        return len(self.columns)

    @property
    def shape(self):
        return (self.height, self.width)

    def __len__(self):
        return self.height

    def is_empty(self):
        return self.height == 0

    def row(self, i, named=False):
        if named:
            return {c: self._d[c][i] for c in self.columns}
        return tuple(self._d[c][i] for c in self.columns)

    def rows(self):
        return [self.row(i) for i in range(self.height)]

    def to_dicts(self):
        return [self.row(i, named=True) for i in range(self.height)]

    def __getitem__(self, key):
        if isinstance(key, str):
            if key not in self._d:
                raise Unsupported("stand-in frame has no column %r" % key)
            return PySeries(self._d[key], key)
        if isinstance(key, slice):
            return self._new({c: self._d[c][key] for c in self.columns})
        raise Unsupported("FakeFrame[%r]" % (key,))

    def slice(self, offset, length=None):
        end = None if length is None else offset + length
        return self._new({c: self._d[c][offset:end] for c in self.columns})

    def head(self, n=5):
        return self.slice(0, n)

    def clone(self):
        return self._new(dict(self._d), order=self.columns)

    def select(self, cols):
        if isinstance(cols, str):
            cols = [cols]
        return self._new({c: self._d[c] for c in cols}, order=list(cols))

    def get_column(self, c):
        return PySeries(self._d[c], c)

    def with_columns(self, *series):
        d = {c: self._d[c] for c in self.columns}
        order = list(self.columns)
        flat = []
        for s in series:
            flat.extend(s if isinstance(s, (list, tuple)) else [s])
        for x in flat:
            if x.name not in order:
                order.append(x.name)
            d[x.name] = x.to_list()
        return self._new(d, order=order)

    def filter(self, mask):
        if not isinstance(mask, PySeries):
            raise Unsupported("FakeFrame.filter with a polars expression")
        keep = [i for i, m in enumerate(mask) if m]
        return self._new({c: [self._d[c][i] for i in keep] for c in self.columns}, order=self.columns)

    def partition_by(self, by, *more, maintain_order=True, include_key=True, as_dict=False):
        """polars: one frame per distinct key, in order of first appearance (maintain_order=True)"""
        if as_dict or not maintain_order or not include_key:
            raise Unsupported("FakeFrame.partition_by options")
        cols = [by] if isinstance(by, str) else list(by)
        cols += list(more)
        keys, groups = [], []
        for i in range(self.height):
            k = tuple(self._d[c][i] for c in cols)
            for j, kk in enumerate(keys):
                if kk == k:
                    groups[j].append(i)
                    break
            else:
                keys.append(k)
                groups.append([i])
        return [self._new({c: [self._d[c][i] for i in g] for c in self.columns}, order=self.columns) for g in groups]

    def sort(self, by, *more, descending=False, nulls_last=False, maintain_order=True):
        cols = [by] if isinstance(by, str) else list(by)
        cols += list(more)
        if descending or nulls_last:
            raise Unsupported("FakeFrame.sort options")
        idx = sorted(range(self.height), key=lambda i: tuple((0, "") if self._d[c][i] is None else (1, self._d[c][i]) for c in cols))
        return self._new({c: [self._d[c][i] for i in idx] for c in self.columns}, order=self.columns)

    def __getattr__(self, name):
        if name.startswith("__"):
            raise AttributeError(name)
        raise Unsupported("FakeFrame does not model .%s" % name)


def concat_frames(frames, how="vertical", **kw):
    """pl.concat for stand-in frames (vertical only)"""
    frames = list(frames)
    if how != "vertical" or not frames:
        raise Unsupported("concat(%r)" % (how,))
    first = frames[0]
    if any(list(f.columns) != list(first.columns) for f in frames):
        raise Unsupported("concat of frames with different columns")
    return first._new({c: [v for f in frames for v in f._d[c]] for c in first.columns}, order=first.columns)


class MetaFrame(FakeFrame):
    """What pl.DataFrame(rows, ...) is replaced by inside rtflite.pagination.core: built from row dicts."""

    def _new(self, d, order=None):
        return FakeFrame(d, order=order if order is not None else list(d))

    def __init__(self, rows=None, schema=None, orient=None):
        rows = [dict(r) for r in (rows or [])]
        cols = {}
        for r in rows:
            for k in r:
                cols.setdefault(k, [])
        for r in rows:
            for k in cols:
                cols[k].append(r.get(k))
        order = []
        for r in rows:
            for k in r:
                if k not in order:
                    order.append(k)
        if not rows and schema:
            cols = {k: [] for k in schema}
            order = list(schema)
        FakeFrame.__init__(self, cols, order=order)
        self._n = len(rows)

    @property
    def height(self):
        return self._n if not self._d else FakeFrame.height.fget(self)

    @property
    def rows(self):
        return self.to_dicts()


class PLStub:
    """Replacement for the module attribute `pl` of rtflite.pagination.core during a harness body."""
    DataFrame = MetaFrame
    Int64 = "Int64"
    Boolean = "Boolean"
    Utf8 = "Utf8"

    def __getattr__(self, name):
        raise Unsupported("polars namespace stand-in does not model pl.%s" % name)
