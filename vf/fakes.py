"""Stand-ins for compiled-extension objects at the boundary of the units under symbolic execution.
Every use is listed in the evidence under `stubs` and validated by API replays / witnesses."""


class FakeColumn:
    def __init__(self, vals):
        self._v = vals

    def __getitem__(self, i):
        return self._v[i]

    def __len__(self):
        return len(self._v)

    def to_list(self):
        return list(self._v)


class FakeFrame:
    """dict-of-lists frame: height, width, shape, columns, row(i[, named]), df[col][i], df[a:b], slice."""

    def __init__(self, data):
        self._d = {k: list(v) for k, v in data.items()}
        self.columns = list(self._d.keys())

    @property
    def height(self):
        return len(next(iter(self._d.values()))) if self._d else 0

    @property
    def width(self):
        return len(self.columns)

    @property
    def shape(self):
        return (self.height, self.width)

    def __len__(self):
        return self.height

    def is_empty(self):
        return self.height == 0

    def row(self, i, named=False):
        if named:
            return {c: self._d[c][i] for c in self.columns}
        return tuple(self._d[c][i] for c in self.columns)

    def rows(self):
        return [self.row(i) for i in range(self.height)]

    def __getitem__(self, key):
        if isinstance(key, str):
            return FakeColumn(self._d[key])
        if isinstance(key, slice):
            return FakeFrame({c: v[key] for c, v in self._d.items()})
        raise TypeError(key)

    def slice(self, offset, length=None):
        end = None if length is None else offset + length
        return FakeFrame({c: v[offset:end] for c, v in self._d.items()})

    def clone(self):
        return FakeFrame(self._d)

    def select(self, cols):
        return FakeFrame({c: self._d[c] for c in cols})


class MetaFrame:
    """What pl.DataFrame(rows, ...) is replaced by inside rtflite.pagination.core."""

    def __init__(self, rows=None, schema=None, orient=None):
        self.rows = [dict(r) for r in (rows or [])]
        self.height = len(self.rows)

    def to_dicts(self):
        return [dict(r) for r in self.rows]


class PLStub:
    """Replacement for the module attribute `pl` of rtflite.pagination.core during a harness body."""
    DataFrame = MetaFrame
    Int64 = "Int64"
    Boolean = "Boolean"
