"""C15 support: shared-state census and real-thread witnesses through the public API."""
import sys
import threading
import types


def _snapshot():
    """repr-level snapshot of module-level and class-level mutable containers / singleton instance dicts of rtflite"""
    snap = {}
    for mname, mod in list(sys.modules.items()):
        if not mname.startswith("rtflite") or mod is None:
            continue
        for k, v in list(vars(mod).items()):
            if k.startswith("__") or isinstance(v, (types.ModuleType, types.FunctionType, type(len))):
                continue
            if isinstance(v, type):
                if getattr(v, "__module__", "").startswith("rtflite"):
                    for ck, cv in list(vars(v).items()):
                        if ck.startswith("__") or ck.startswith("model_") or ck.startswith("_abc"):
                            continue
                        if isinstance(cv, (dict, list, set)):
                            snap["%s.%s.%s" % (mname, k, ck)] = repr(cv)[:2000]
                        elif hasattr(cv, "__dict__") and type(cv).__module__.startswith("rtflite") and not isinstance(cv, type):
                            # a class-level instance (e.g. a shared encoder): its attributes are process-global state
                            snap["%s.%s.%s" % (mname, k, ck)] = repr(sorted((a, repr(b)[:200]) for a, b in vars(cv).items()))[:2000]
                continue
            if isinstance(v, (dict, list, set)):
                if len(repr(v)) < 5000:
                    snap["%s.%s" % (mname, k)] = repr(v)
                else:
                    snap["%s.%s" % (mname, k)] = "len=%d" % len(v)
            elif hasattr(v, "__dict__") and type(v).__module__.startswith("rtflite") and not isinstance(v, type):
                for ak, av in list(vars(v).items()):
                    if isinstance(av, (dict, list, set)) and len(av) > 50:
                        snap["%s.%s.%s" % (mname, k, ak)] = "len=%d" % len(av)
                    else:
                        snap["%s.%s.%s" % (mname, k, ak)] = repr(av)[:500]
    # context-local colour state as seen from the calling thread
    from rtflite.services.color_service import color_service
    snap["<color context visible to this thread>"] = repr(color_service._current_document_colors)
    return snap


def _docs(figdir):
    from .api_c14 import build
    return [build("coloured", None, figdir), build("multi", None, figdir), build("figure", None, figdir)]


def census(tier="quick"):
    import tempfile
    import shutil
    from rtflite.encoding.unified_encoder import UnifiedRTFEncoder
    figdir = tempfile.mkdtemp(prefix="vf-c15-")
    changed_during, changed_after, visible = set(), set(), set()
    try:
        for doc in _docs(figdir):
            doc.rtf_encode()              # warm-up: first-use registrations are not interference
            before = _snapshot()
            inside = {}
            seen_from_other_thread = {}
            orig_body = UnifiedRTFEncoder._encode_body_section
            orig_fig = UnifiedRTFEncoder._encode_figure_only

            def probe():
                inside.update(_snapshot())
                t = threading.Thread(target=lambda: seen_from_other_thread.update(_snapshot()))
                t.start()
                t.join()

            def body(self, *a, **k):
                probe()
                return orig_body(self, *a, **k)

            def fig(self, *a, **k):
                probe()
                return orig_fig(self, *a, **k)
            UnifiedRTFEncoder._encode_body_section = body
            UnifiedRTFEncoder._encode_figure_only = fig
            try:
                doc.rtf_encode()
            finally:
                UnifiedRTFEncoder._encode_body_section = orig_body
                UnifiedRTFEncoder._encode_figure_only = orig_fig
            after = _snapshot()
            for k in set(before) | set(inside):
                if before.get(k) != inside.get(k):
                    changed_during.add(k)
                    if seen_from_other_thread.get(k) == inside.get(k):
                        visible.add(k)
            for k in set(before) | set(after):
                if before.get(k) != after.get(k):
                    changed_after.add(k)
    finally:
        shutil.rmtree(figdir, ignore_errors=True)
    known = ("<color context visible to this thread>", "rtflite.pagination.strategies.registry.StrategyRegistry._strategies")
    unmodelled = sorted(k for k in (changed_during | changed_after) if k not in known)
    out = {"paths": 3, "queries": 0, "solver_s": 0.0,
           "samples": [{"changed_while_encoding": sorted(changed_during), "still_changed_after": sorted(changed_after),
                        "visible_to_another_thread": sorted(visible)}],
           "notes": ["concrete probe (assumption validation for the symbolic interference obligations)"]}
    if unmodelled:
        out.update(verdict="inconclusive", reason="process-global state outside the interference model is written while encoding: %s" % unmodelled)
    else:
        out["verdict"] = "confirmed"
    return out


def _os_sep_join(*parts):
    import os
    return os.sep + os.sep.join(p for p in parts if p) + os.sep


def witnesses(tier="quick", seed=0):
    """real threads, real documents: A is paused at its k-th colour lookup while B encodes completely"""
    import tempfile
    import shutil
    from rtflite.services.color_service import ColorService
    figdir = tempfile.mkdtemp(prefix="vf-c15-")
    viol, n, samples = [], 0, []
    try:
        from .api_c14 import build
        kinds = ["coloured", "multi", "figure", "paged"]
        for ka in kinds:
            A = build(ka, None, figdir)
            alone = A.rtf_encode()
            for kb in kinds:
                B = build(kb, None, figdir)
                for k in ((0, 1, 3) if tier == "quick" else range(0, 12)):
                    orig = ColorService.get_rtf_color_index
                    me = threading.get_ident()
                    cnt = {"n": 0}

                    def hooked(self, color, used_colors=None):
                        if threading.get_ident() == me:
                            if cnt["n"] == k:
                                t = threading.Thread(target=B.rtf_encode)
                                t.start()
                                t.join()
                            cnt["n"] += 1
                        return orig(self, color, used_colors)
                    ColorService.get_rtf_color_index = hooked
                    try:
                        got = A.rtf_encode()
                    finally:
                        ColorService.get_rtf_color_index = orig
                    n += 1
                    if len(samples) < 3:
                        samples.append({"A": ka, "B": kb, "preempt_at_lookup": k, "equal_to_sequential": got == alone})
                    if got != alone:
                        viol.append({"args": {"A": ka, "B": kb, "k": k}, "verdict": "thread A's document differs from its sequential result"})
        # one preemption at EVERY function-call boundary inside rtflite (not only colour lookups): thread A is stopped before its
        # k-th call of a function defined in the package while thread B encodes another document completely
        import sys as _sys
        pkg = _os_sep_join("rtflite", "")
        stride_pairs = [("grouped_paged", "many_groups"), ("paged", "grouped_paged"), ("font9", "font95")]
        for ka, kb in stride_pairs:
            A, B = build(ka, None, figdir), build(kb, None, figdir)
            alone = A.rtf_encode()
            B.rtf_encode()

            def run(k, record=None):
                cnt = {"n": 0, "fired": False}

                def prof(frame, event, arg):
                    if event == "call" and pkg in frame.f_code.co_filename:
                        if record is not None:
                            record.append((frame.f_code.co_filename, frame.f_code.co_firstlineno))
                        if cnt["n"] == k and not cnt["fired"]:
                            cnt["fired"] = True
                            _sys.setprofile(None)
                            try:
                                t = threading.Thread(target=B.rtf_encode)
                                t.start()
                                t.join()
                            finally:
                                _sys.setprofile(prof)
                        cnt["n"] += 1
                _sys.setprofile(prof)
                try:
                    try:
                        out = A.rtf_encode()
                    except Exception as e:  # noqa: BLE001
                        out = "raised %s: %s" % (type(e).__name__, str(e)[:120])
                finally:
                    _sys.setprofile(None)
                return out, cnt["n"]
            trace = []
            _, total = run(-1, trace)
            if tier == "quick":
                # every distinct callee (call site of the package) at its first and its last instance, plus a seeded stride
                first, last = {}, {}
                for i, key in enumerate(trace):
                    first.setdefault(key, i)
                    last[key] = i
                step = max(1, total // 60)
                ks = sorted(set(first.values()) | set(last.values()) | set(range(seed % step, total, step)))
            else:
                ks = list(range(total))
            boundaries_checked = 0
            for k in ks:
                got, _n = run(k)
                n += 1
                boundaries_checked += 1
                if got != alone:
                    viol.append({"args": {"A": ka, "B": kb, "k": k, "of": total},
                                 "verdict": "thread A's document differs from its sequential result when stopped before its %d-th "
                                            "call into rtflite: %s" % (k, got[:120] if isinstance(got, str) and got.startswith("raised") else "other output")})
                    break
            step = 1 if tier != "quick" else "distinct callees (first+last instance) + stride"
            if len(samples) < 6:
                samples.append({"A": ka, "B": kb, "call_boundaries_in_A": total, "boundaries_checked": boundaries_checked, "stride": step})
        # genuinely concurrent smoke run
        docs = [build(k, None, figdir) for k in kinds]
        seq = [d.rtf_encode() for d in docs]
        res = [None] * len(docs)
        def work(i):
            for _ in range(5):
                res[i] = docs[i].rtf_encode()
        ts = [threading.Thread(target=work, args=(i,)) for i in range(len(docs))]
        [t.start() for t in ts]
        [t.join() for t in ts]
        n += 1
        if res != seq:
            viol.append({"args": {"A": "all", "B": "all", "k": -1}, "verdict": "free-running concurrent encodes differ from sequential"})
    finally:
        shutil.rmtree(figdir, ignore_errors=True)
    return {"verdict": "confirmed" if not viol else "counterexample", "replayed": n, "violations": viol, "samples": samples}
