"""C17 support: validation of the line grammar G against real output, and read-back witnesses."""
import contextlib
import io
import itertools
import os
import random
import shutil
import tempfile

from . import rtfread as R


def _docs(figdir):
    import polars as pl
    import rtflite as rtf
    from .api_c14 import build
    df = pl.DataFrame({"a": [str(i) for i in range(7)], "b": ["x"] * 7})
    return {
        "table": rtf.RTFDocument(df=df.head(3), rtf_title=rtf.RTFTitle(text="T1")),
        "pages3": rtf.RTFDocument(df=df, rtf_page=rtf.RTFPage(nrow=4), rtf_footnote=rtf.RTFFootnote(text="fn")),
        "landscape": rtf.RTFDocument(df=df.head(2), rtf_page=rtf.RTFPage(orientation="landscape"),
                                     rtf_page_header=rtf.RTFPageHeader(), rtf_page_footer=rtf.RTFPageFooter(text="foot")),
        "multi": build("multi", None, figdir),
        "figure": build("figure", None, figdir),
        "figure_plain": rtf.RTFDocument(rtf_figure=rtf.RTFFigure(figures=[os.path.join(figdir, "f.png")], fig_width=2.0, fig_height=1.0)),
        "coloured": build("coloured", None, figdir),
    }


def grammar(tier="quick"):
    figdir = tempfile.mkdtemp(prefix="vf-c17-")
    bad = []
    try:
        for name, doc in _docs(figdir).items():
            text = doc.rtf_encode()
            lines = text.splitlines(keepends=True)
            fc = [i for i, l in enumerate(lines) if "fcharset" in l]
            closer = lines[fc[-1] + 1].strip() if fc else ""
            ok = (lines[0].startswith("{\\rtf1") and fc and fc == list(range(fc[0], fc[-1] + 1))
                  and (closer == "}" or closer.startswith("}{\\colortbl")) and lines[-1].strip() == "}" and fc[0] <= 2)
            if not ok:
                bad.append(name)
    finally:
        shutil.rmtree(figdir, ignore_errors=True)
    out = {"paths": 6, "queries": 0, "solver_s": 0.0, "samples": [{"documents_checked": 7, "not_in_grammar": bad}],
           "notes": ["concrete assumption validation"]}
    if bad:
        out.update(verdict="inconclusive", reason="real rtflite output no longer matches the line grammar G: %s" % bad)
    else:
        out["verdict"] = "confirmed"
    return out


def _page_sig(doc):
    sig = []
    for pg in doc.pages:
        blocks = []
        for b in pg.blocks:
            if isinstance(b, R.Row):
                blocks.append(("row", tuple(c.text for c in b.cells), tuple(c.cellx for c in b.cells)))
            elif isinstance(b, R.Para):
                if b.runs:
                    blocks.append(("para", b.text))
            else:
                blocks.append(("pict", b.kind, len(b.data)))
        sig.append(blocks)
    return sig


def witnesses(tier="quick", seed=0):
    import rtflite as rtf
    rnd = random.Random(seed)
    d = tempfile.mkdtemp(prefix="vf-c17-")
    viol, n, samples = [], 0, []
    try:
        docs = _docs(d)
        paths, parsed = {}, {}
        for name, doc in docs.items():
            p = os.path.join(d, name + ".rtf")
            with contextlib.redirect_stdout(io.StringIO()):
                doc.write_rtf(p)
            paths[name] = p
            parsed[name] = R.read(open(p, "rb").read())
        names = [k for k in docs if k != "coloured"]     # later colour tables are outside the claim
        orders = [[a] for a in names] + [list(p) for p in itertools.permutations(names, 2)]
        trip = [list(p) for p in itertools.permutations(names, 3)]
        rnd.shuffle(trip)
        orders += trip[: (6 if tier == "quick" else 40)] + [["table", "pages3", "table"]]
        for order in orders:
            out = os.path.join(d, "out.rtf")
            if os.path.exists(out):
                os.remove(out)
            rtf.assemble_rtf([paths[k] for k in order], out)
            got = R.read(open(out, "rb").read())
            errs = R.wellformed_errors(got)
            exp = []
            for k in order:
                exp += _page_sig(parsed[k])
            same_geometry = True
            idx = 0
            for j, k in enumerate(order):
                if j > 0:
                    pg = got.pages[idx] if idx < len(got.pages) else None
                    if pg is None or pg.break_settings.get("paperw") != parsed[k].settings.get("paperw"):
                        same_geometry = False
                idx += len(parsed[k].pages)
            n += 1
            ok = not errs and _page_sig(got) == exp and same_geometry
            if len(samples) < 3:
                samples.append({"order": order, "pages": len(got.pages), "ok": ok})
            if not ok:
                viol.append({"args": {"order": order}, "verdict": "errors=%s pages_equal=%s geometry=%s" % (
                    errs[:2], _page_sig(got) == exp, same_geometry)})
    finally:
        shutil.rmtree(d, ignore_errors=True)
    return {"verdict": "confirmed" if not viol else "counterexample", "replayed": n, "violations": viol, "samples": samples}
