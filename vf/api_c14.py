"""Concrete history witnesses for C14 (assumption validation, reported separately from the solver obligations):
a target document encoded after a history of operations must equal what a FRESH interpreter produces."""
import itertools
import json
import os
import random
import subprocess
import sys
import tempfile

PNG = (b"\x89PNG\r\n\x1a\n\x00\x00\x00\rIHDR\x00\x00\x00\x02\x00\x00\x00\x02\x08\x02\x00\x00\x00\xfd\xd4\x9as"
       b"\x00\x00\x00\x0cIDATx\x9cc\xf8\xcf\xc0\x00\x00\x03\x01\x01\x00\xc9\xfe\x92\xef\x00\x00\x00\x00IEND\xaeB`\x82")

TARGETS = ["plain", "coloured", "multi", "figure", "grouped", "paged", "shared", "font95"]


def build(kind, shared=None, figdir=None):
    import polars as pl
    import rtflite as rtf
    shared = shared if shared is not None else {}

    def sh(key, make):
        if key not in shared:
            shared[key] = make()
        return shared[key]
    df = pl.DataFrame({"g": ["A", "A", "B", "B"], "x": ["1", "2", "3", "4"], "y": ["p", "q", "r", "s"]})
    if kind == "plain":
        return rtf.RTFDocument(df=df)
    if kind == "coloured":
        return rtf.RTFDocument(df=df, rtf_body=rtf.RTFBody(text_color=[["red", "blue", "black"]]),
                               rtf_title=rtf.RTFTitle(text="T", text_color="darkgreen"),
                               rtf_page_header=rtf.RTFPageHeader(text="H", text_color="gold"))
    if kind == "multi":
        return rtf.RTFDocument(df=[df, df.select(["x", "y"])], rtf_body=[rtf.RTFBody(text_color="red"), rtf.RTFBody()],
                               rtf_column_header=[[rtf.RTFColumnHeader(text=["G", "X", "Y"])], [None]],
                               rtf_footnote=rtf.RTFFootnote(text="note", text_color="blue"))
    if kind == "figure":
        p = os.path.join(figdir, "f.png")
        if not os.path.exists(p):
            with open(p, "wb") as f:
                f.write(PNG)
        return rtf.RTFDocument(rtf_figure=rtf.RTFFigure(figures=[p, p], fig_width=[2.0], fig_height=[1.5]),
                               rtf_title=rtf.RTFTitle(text="Fig", text_color="red"),
                               rtf_footnote=rtf.RTFFootnote(text="fn", as_table=False))
    if kind == "grouped":
        return rtf.RTFDocument(df=df, rtf_body=rtf.RTFBody(group_by=["g"]), rtf_page=rtf.RTFPage(nrow=4))
    if kind == "paged":
        return rtf.RTFDocument(df=df, rtf_body=rtf.RTFBody(page_by=["g"]), rtf_page=rtf.RTFPage(nrow=4),
                               rtf_footnote=rtf.RTFFootnote(text="f"), rtf_source=rtf.RTFSource(text="s", as_table=True))
    if kind == "shared":
        # a 2-column document built from component objects that earlier documents of the history also used
        return rtf.RTFDocument(df=df.select(["x", "y"]), rtf_body=sh("body", lambda: rtf.RTFBody()),
                               rtf_footnote=sh("footnote", lambda: rtf.RTFFootnote(text="note")),
                               rtf_source=rtf.RTFSource(text="src", as_table=True),
                               rtf_subline=sh("subline", lambda: rtf.RTFSubline(text="sub")),
                               rtf_column_header=[sh("header", lambda: rtf.RTFColumnHeader())])
    if kind == "shared3":
        # uses the same shared components with a 3-column frame and as a multi-section document
        return rtf.RTFDocument(df=[df, df], rtf_body=[sh("body", lambda: rtf.RTFBody()), rtf.RTFBody()],
                               rtf_column_header=[[sh("header", lambda: rtf.RTFColumnHeader())], [None]],
                               rtf_footnote=sh("footnote", lambda: rtf.RTFFootnote(text="note")),
                               rtf_subline=sh("subline", lambda: rtf.RTFSubline(text="sub")))
    if kind in ("font9", "font95"):
        # cells whose wrapping depends on the exact font size: 9 pt vs 9.5 pt, several pages
        wide = pl.DataFrame({"a": ["The quick brown fox jumps over the lazy dog and keeps on running %d" % i for i in range(10)],
                             "b": ["x"] * 10})
        return rtf.RTFDocument(df=wide, rtf_body=rtf.RTFBody(text_font_size=9 if kind == "font9" else 9.5, col_rel_width=[1, 1]),
                               rtf_column_header=[rtf.RTFColumnHeader(text=["A", "B"])], rtf_page=rtf.RTFPage(nrow=12))
    if kind == "grouped_paged":
        # group_by restored at page starts + page_by headings, several pages
        d = pl.DataFrame({"p": ["P1"] * 3 + ["P2"] * 3, "g": ["A", "A", "A", "B", "B", "B"], "x": [str(i) for i in range(6)]})
        return rtf.RTFDocument(df=d, rtf_body=rtf.RTFBody(page_by=["p"], group_by=["g"]), rtf_page=rtf.RTFPage(nrow=5))
    if kind == "many_groups":
        # another document with group_by data of its own and 40 distinct page_by headings
        d = pl.DataFrame({"p": ["Heading number %d of the other document" % i for i in range(40)],
                          "g": ["ZZZ%d" % (i // 2) for i in range(40)], "x": [str(i) for i in range(40)]})
        return rtf.RTFDocument(df=d, rtf_body=rtf.RTFBody(page_by=["p"], group_by=["g"]), rtf_page=rtf.RTFPage(nrow=8))
    if kind == "failing":
        bad = pl.DataFrame({"g": ["A", "B", "A"], "x": ["1", "2", "3"]})
        return rtf.RTFDocument(df=bad, rtf_body=rtf.RTFBody(group_by=["g"], text_color="purple"))
    raise ValueError(kind)


def baseline(kind, figdir):
    code = ("import sys, json; sys.path.insert(0, %r); from vf.api_c14 import build; "
            "print(json.dumps(build(%r, None, %r).rtf_encode()))" % (os.path.dirname(os.path.dirname(__file__)), kind, figdir))
    env = dict(os.environ)
    p = subprocess.run([sys.executable, "-c", code], capture_output=True, text=True, timeout=120, env=env)
    return json.loads(p.stdout.strip().splitlines()[-1])


OPS = ["construct", "encode", "encode_twice", "encode_fail"]
HISTORY_DOCS = ["plain", "coloured", "multi", "figure", "grouped", "paged", "shared3", "font9"]


def apply(op, kind, shared, figdir):
    if op == "encode_fail":
        try:
            build("failing", shared, figdir).rtf_encode()
        except ValueError:
            pass
        return
    d = build(kind, shared, figdir)
    if op in ("encode", "encode_twice"):
        d.rtf_encode()
    if op == "encode_twice":
        d.rtf_encode()


def witnesses(tier="quick", seed=0):
    rnd = random.Random(seed)
    figdir = tempfile.mkdtemp(prefix="vf-c14-")
    viol, n, samples = [], 0, []
    try:
        base = {t: baseline(t, figdir) for t in TARGETS}
        steps = [(op, k) for op in OPS for k in HISTORY_DOCS if not (op == "encode_fail" and k != "plain")]
        hist = [[s] for s in steps]
        two = [list(p) for p in itertools.product(steps, repeat=2)]
        rnd.shuffle(two)
        hist += two[: (40 if tier == "quick" else 300)]
        for h in hist:
            targets = TARGETS if len(h) == 1 else [rnd.choice(TARGETS), "shared"]
            for t in targets:
                shared = {}
                for op, k in h:
                    apply(op, k, shared, figdir)
                doc = build(t, shared, figdir)
                a = doc.rtf_encode()
                b = doc.rtf_encode()
                n += 1
                if len(samples) < 3:
                    samples.append({"history": h, "target": t, "equal_to_fresh_interpreter": a == base[t], "repeatable": a == b})
                if a != base[t] or a != b:
                    viol.append({"args": {"history": h, "target": t}, "verdict": "differs from fresh interpreter" if a != base[t]
                                 else "second encode differs from first"})
    finally:
        import shutil
        shutil.rmtree(figdir, ignore_errors=True)
    return {"verdict": "confirmed" if not viol else "counterexample", "replayed": n, "violations": viol, "samples": samples}
