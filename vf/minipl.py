"""Engine C: a pure-Python model of the polars vocabulary used by rtflite's expression kernels.

GroupingService._suppress_* / restore_page_context / validate_data_sorting and the three paginate() methods consist of
polars *expressions* whose semantics (Kleene logic on nulls in particular) live in Rust.  This module models that
vocabulary on list-backed frames whose cells are ordinary Python values - under CrossHair they are symbolic, so the real
rtflite functions run on symbolic frames.  None is null.  Null semantics follow the polars documentation:
comparisons with null give null; | and & are Kleene; when(null) takes the otherwise branch; *_missing comparisons treat
null as a value.  An operation outside the modelled vocabulary raises Unsupported (=> obligation inconclusive).
The model is validated against real polars on seeded random frames on every run (vf.minipl_validate).
"""
from __future__ import annotations

from .fakes import FakeFrame, PySeries, Unsupported


# ---- null-aware scalar operators -------------------------------------------------------------------
def k_or(a, b):
    if a is None:
        if b is None:
            return None
        return True if b else None
    if b is None:
        return True if a else None
    return True if a else (True if b else False)


def k_and(a, b):
    if a is None:
        if b is None:
            return None
        return None if b else False
    if b is None:
        return None if a else False
    return (True if b else False) if a else False


def k_not(a):
    return None if a is None else (not a)


def _cmp(op):
    def f(a, b):
        if a is None or b is None:
            return None
        return op(a, b)
    return f


def _ne_missing(a, b):
    if a is None or b is None:
        return not (a is None and b is None)
    return a != b


def _eq_missing(a, b):
    if a is None or b is None:
        return a is None and b is None
    return a == b


# ---- expressions -----------------------------------------------------------------------------------
class Expr:
    """lazily evaluated column expression: fn(frame) -> list"""

    def __init__(self, fn, name=None):
        self._fn = fn
        self._name = name

    def eval(self, frame):
        return self._fn(frame)

    def _bin(self, other, f):
        def fn(frame):
            a = self.eval(frame)
            b = _values(other, frame, len(a))
            return [f(x, y) for x, y in zip(a, b)]
        return Expr(fn, self._name)

    def __eq__(self, o): return self._bin(o, _cmp(lambda a, b: a == b))  # noqa: E704
    def __ne__(self, o): return self._bin(o, _cmp(lambda a, b: a != b))
    def __lt__(self, o): return self._bin(o, _cmp(lambda a, b: a < b))
    def __le__(self, o): return self._bin(o, _cmp(lambda a, b: a <= b))
    def __gt__(self, o): return self._bin(o, _cmp(lambda a, b: a > b))
    def __ge__(self, o): return self._bin(o, _cmp(lambda a, b: a >= b))
    def __or__(self, o): return self._bin(o, k_or)
    def __ror__(self, o): return self._bin(o, lambda a, b: k_or(b, a))
    def __and__(self, o): return self._bin(o, k_and)
    def __rand__(self, o): return self._bin(o, lambda a, b: k_and(b, a))
    def __invert__(self): return Expr(lambda fr: [k_not(x) for x in self.eval(fr)], self._name)
    def __add__(self, o): return self._bin(o, _cmp(lambda a, b: a + b))
    def __sub__(self, o): return self._bin(o, _cmp(lambda a, b: a - b))
    __hash__ = None

    def ne_missing(self, o): return self._bin(o, _ne_missing)
    def eq_missing(self, o): return self._bin(o, _eq_missing)

    def shift(self, k=1):
        def fn(frame):
            v = self.eval(frame)
            n = len(v)
            if k >= 0:
                return [None] * min(k, n) + v[:max(0, n - k)]
            return v[-k:] + [None] * min(-k, n)
        return Expr(fn, self._name)

    def is_null(self): return Expr(lambda fr: [x is None for x in self.eval(fr)], self._name)
    def is_not_null(self): return Expr(lambda fr: [x is not None for x in self.eval(fr)], self._name)
    def fill_null(self, v): return Expr(lambda fr: [v if x is None else x for x in self.eval(fr)], self._name)

    def forward_fill(self, limit=None):
        def fn(fr):
            out, last = [], None
            for x in self.eval(fr):
                if x is not None:
                    last = x
                out.append(last)
            return out
        return Expr(fn, self._name)

    def backward_fill(self, limit=None):
        def fn(fr):
            vals = list(self.eval(fr))
            out, nxt = [None] * len(vals), None
            for i in range(len(vals) - 1, -1, -1):
                if vals[i] is not None:
                    nxt = vals[i]
                out[i] = nxt
            return out
        return Expr(fn, self._name)

    def cast(self, dtype):
        if dtype in ("Utf8", "String", str):
            return Expr(lambda fr: [None if x is None else str(x) for x in self.eval(fr)], self._name)
        return self

    def alias(self, name):
        return Expr(self._fn, name)

    def __getattr__(self, name):
        if name.startswith("__"):
            raise AttributeError(name)
        raise Unsupported("polars model: Expr.%s is not modelled" % name)


def _values(x, frame, n):
    if isinstance(x, Expr):
        return x.eval(frame)
    if isinstance(x, PySeries):
        return x.to_list()
    return [x] * n


class Series(PySeries):
    """eager column with polars null semantics"""

    def _bin(self, other, f):
        if isinstance(other, Expr):
            return Expr(lambda fr: [f(a, b) for a, b in zip(self._v, other.eval(fr))], self.name)
        if isinstance(other, PySeries):
            return Series([f(a, b) for a, b in zip(self._v, other._v)], self.name)
        return Series([f(a, other) for a in self._v], self.name)

    def __eq__(self, o): return self._bin(o, _cmp(lambda a, b: a == b))  # noqa: E704
    def __ne__(self, o): return self._bin(o, _cmp(lambda a, b: a != b))
    def __lt__(self, o): return self._bin(o, _cmp(lambda a, b: a < b))
    def __le__(self, o): return self._bin(o, _cmp(lambda a, b: a <= b))
    def __gt__(self, o): return self._bin(o, _cmp(lambda a, b: a > b))
    def __ge__(self, o): return self._bin(o, _cmp(lambda a, b: a >= b))
    def __or__(self, o): return self._bin(o, k_or)
    def __and__(self, o): return self._bin(o, k_and)
    def __invert__(self): return Series([k_not(a) for a in self._v], self.name)
    __hash__ = None

    def ne_missing(self, o): return self._bin(o, _ne_missing)
    def eq_missing(self, o): return self._bin(o, _eq_missing)
    def shift(self, k=1): return Series(PySeries.shift(self, k)._v, self.name)
    def is_null(self): return Series([a is None for a in self._v], self.name)
    def is_not_null(self): return Series([a is not None for a in self._v], self.name)
    def fill_null(self, v): return Series([v if a is None else a for a in self._v], self.name)
    def null_count(self): return sum(1 for a in self._v if a is None)
    def alias(self, name): return Series(self._v, name)
    def unique(self): return Series(PySeries.unique(self)._v, self.name)
    def sort(self): return Series(sorted(self._v), self.name)

    def cast(self, dtype):
        if dtype in ("Utf8", "String", str):
            return Series([None if a is None else str(a) for a in self._v], self.name)
        return self

    def min(self):
        vals = [a for a in self._v if a is not None]
        return min(vals) if vals else None

    def max(self):
        vals = [a for a in self._v if a is not None]
        return max(vals) if vals else None


class Frame(FakeFrame):
    def __init__(self, data=None, schema=None, orient=None, order=None):
        """dict of columns, or (like polars) a list of column lists / with orient='row' a list of row lists"""
        if data is None:
            data = {}
        if isinstance(data, FakeFrame):
            order = order if order is not None else list(data.columns)
            data = data._d
        if isinstance(data, (list, tuple)):
            if data and isinstance(data[0], dict):
                keys = list(data[0])
                data = {k: [r.get(k) for r in data] for k in keys}
                order = keys
            else:
                seqs = [list(x) if isinstance(x, (list, tuple)) else [x] for x in data]
                if orient == "row":
                    ncol = len(seqs[0]) if seqs else 0
                    cols = [[r[j] for r in seqs] for j in range(ncol)]
                else:
                    cols = seqs
                names = list(schema) if schema else ["column_%d" % j for j in range(len(cols))]
                data = dict(zip(names, cols))
                order = names
        FakeFrame.__init__(self, data, order=order)

    def _new(self, d, order=None):
        return Frame(d, order=order if order is not None else [c for c in self.columns if c in d] + [c for c in d if c not in self.columns])

    def __getitem__(self, key):
        if isinstance(key, str):
            if key not in self._d:
                raise Unsupported("model frame has no column %r" % key)
            return Series(self._d[key], key)
        if isinstance(key, slice):
            return self._new({c: self._d[c][key] for c in self.columns}, order=self.columns)
        raise Unsupported("Frame[%r]" % (key,))

    def select(self, cols):
        if isinstance(cols, (str, Expr)):
            cols = [cols]
        out, order = {}, []
        for c in cols:
            if isinstance(c, Expr):
                out[c._name] = c.eval(self)
                order.append(c._name)
            else:
                out[c] = self._d[c]
                order.append(c)
        return self._new(out, order=order)

    def get_column(self, c): return Series(self._d[c], c)

    def with_columns(self, *exprs, **named):
        d = {c: self._d[c] for c in self.columns}
        order = list(self.columns)
        flat = []
        for e in exprs:
            if isinstance(e, (list, tuple)):
                flat.extend(e)
            else:
                flat.append(e)

        def put(name, vals):
            if name not in order:
                order.append(name)
            d[name] = vals
        for e in flat:
            if isinstance(e, Expr):
                if e._name is None:
                    raise Unsupported("with_columns needs a named expression")
                put(e._name, e.eval(self))
            elif isinstance(e, PySeries):
                put(e.name, e.to_list())
            else:
                raise Unsupported("with_columns(%r)" % type(e).__name__)
        for k, e in named.items():
            put(k, _values(e, self, self.height))
        return self._new(d, order=order)

    def filter(self, mask):
        vals = _values(mask, self, self.height)
        keep = [i for i, m in enumerate(vals) if m is not None and m]
        return self._new({c: [self._d[c][i] for i in keep] for c in self.columns}, order=self.columns)

    def unique(self):
        seen, keep = [], []
        for i in range(self.height):
            r = self.row(i)
            if r not in seen:
                seen.append(r)
                keep.append(i)
        return self._new({c: [self._d[c][i] for i in keep] for c in self.columns}, order=self.columns)

    def hash_rows(self, seed=0, seed_1=None, seed_2=None, seed_3=None):
        """one integer per row, a function of the row's values only (polars: a 64-bit hash per row)"""
        out = []
        for i in range(self.height):
            h = 1469598103934665603
            for c in self.columns:
                cell = self._d[c][i]
                text = "\x00" if cell is None else "\x01" + str(cell)
                for ch in text + "\x02":
                    h = ((h ^ ord(ch)) * 1099511628211) % (1 << 64)
            out.append(h)
        return Series(out, "hash_rows")

    def __eq__(self, other):
        return isinstance(other, FakeFrame) and self.columns == other.columns and self._d == other._d


class _When:
    def __init__(self, cond): self.cond = cond
    def then(self, v): return _Then(self.cond, v)


class _Then:
    def __init__(self, cond, v): self.cond, self.v = cond, v

    def otherwise(self, o):
        cond, v = self.cond, self.v

        def fn(frame):
            n = frame.height
            c = _values(cond, frame, n)
            a = _values(v, frame, n)
            b = _values(o, frame, n)
            return [x if (m is not None and m) else y for m, x, y in zip(c, a, b)]
        name = v._name if isinstance(v, Expr) else (v.name if isinstance(v, PySeries) else None)
        return Expr(fn, name)


class PL:
    """the `pl` namespace of the model"""
    Utf8 = "Utf8"
    String = "Utf8"
    Int64 = "Int64"
    Boolean = "Boolean"
    DataFrame = Frame
    Series = Series
    Expr = Expr

    @staticmethod
    def col(name):
        def fn(fr):
            if name not in fr._d:
                raise Unsupported("model frame has no column %r" % name)
            return list(fr._d[name])
        return Expr(fn, name)
    @staticmethod
    def lit(v): return Expr(lambda fr: [v] * fr.height, "literal")
    @staticmethod
    def when(cond): return _When(cond)

    @staticmethod
    def int_range(a, b=None, eager=False):
        lo, hi = (0, a) if b is None else (a, b)
        if eager:
            return Series(list(range(lo, hi)), "int_range")
        return Expr(lambda fr: list(range(lo, hi)), "int_range")

    @staticmethod
    def concat_str(cols, separator=""):
        def fn(fr):
            vals = [_values(c if isinstance(c, Expr) else PL.col(c), fr, fr.height) for c in cols]
            out = []
            for i in range(fr.height):
                parts = [v[i] for v in vals]
                out.append(None if any(p is None for p in parts) else separator.join(str(p) for p in parts))
            return out
        return Expr(fn, "concat_str")

    def __getattr__(self, name):
        raise Unsupported("polars model: pl.%s is not modelled" % name)


pl = PL()


class substituted:
    """with substituted(): in every loaded rtflite module the global bound to the real polars module, AND
    sys.modules['polars'] (for function-local `import polars as pl`), are the model.  (Module arguments are accepted for
    backward compatibility and ignored: the substitution is identity-based over all rtflite modules, so it keeps working
    when a refactoring moves a polars call into another module.)"""

    _REAL = None

    def __init__(self, *mods):
        import sys
        if substituted._REAL is None:
            real = sys.modules.get("polars")
            if real is None or real is pl:
                try:
                    import importlib
                    real = importlib.import_module("polars")
                except Exception:  # noqa: BLE001
                    real = None
            substituted._REAL = real
        from vf.hlib import swapped
        self._swap = swapped((substituted._REAL, pl))

    def __enter__(self):
        self._swap.__enter__()        # also replaces sys.modules['polars'] (swapped handles module objects)
        return pl

    def __exit__(self, *a):
        self._swap.__exit__()
        return False
