"""A small RTF reader written from the RTF 1.9.1 specification, independently of rtflite.

It is the *oracle of the replay ladder* (DESIGN.md 3.4): concrete documents produced by the real,
unstubbed library are read back and judged against the property statements.  It is not a deciding
engine.  Input: the bytes of the file (a str is encoded as UTF-8, which is what write_rtf does).

Model produced by read(): Doc(fonts, colors, header_groups, footer_groups, first_settings, pages,
errors, top_level_groups, trailing) ; Page(blocks, settings) ; blocks are Para / Row / Pict.
"""
from __future__ import annotations

import re
from dataclasses import dataclass, field

BORDER_WORDS = {
    "brdrs": "single", "brdrdb": "double", "brdrth": "thick", "brdrdot": "dotted", "brdrdash": "dashed",
    "brdrdashsm": "small-dash", "brdrdashd": "dash-dotted", "brdrdashdd": "dash-dot-dotted",
    "brdrtriple": "triple", "brdrwavy": "wavy", "brdrwavydb": "double-wavy", "brdrengrave": "engraved",
    "brdremboss": "embossed", "brdrframe": "frame",
}
PAGE_WORDS = ("paperw", "paperh", "margl", "margr", "margt", "margb", "headery", "footery")


class RTFError(Exception):
    pass


# ------------------------------------------------------------------------------------------------
# tokenizer (over bytes)
# ------------------------------------------------------------------------------------------------
def tokenize(data: bytes):
    """Yield tokens: ('{',) ('}',) ('cw', name, param|None, had_space) ('sym', ch) ('hex', byte)
    ('bytes', b'...').  Raises RTFError on a lexically invalid control sequence."""
    i, n = 0, len(data)
    out = []
    while i < n:
        c = data[i]
        if c == 0x7B:
            out.append(("{",))
            i += 1
        elif c == 0x7D:
            out.append(("}",))
            i += 1
        elif c == 0x5C:
            if i + 1 >= n:
                raise RTFError("dangling backslash at end of input")
            d = data[i + 1]
            if (0x61 <= d <= 0x7A) or (0x41 <= d <= 0x5A):
                j = i + 1
                while j < n and ((0x61 <= data[j] <= 0x7A) or (0x41 <= data[j] <= 0x5A)):
                    j += 1
                name = data[i + 1:j].decode("ascii")
                if len(name) > 32:
                    raise RTFError("control word longer than 32 characters: " + name[:40])
                param = None
                k = j
                if k < n and data[k] == 0x2D:
                    k += 1
                d0 = k
                while k < n and 0x30 <= data[k] <= 0x39:
                    k += 1
                if k > d0:
                    if k - d0 > 10:
                        raise RTFError("numeric parameter too long after \\" + name)
                    param = int(data[j:k].decode("ascii"))
                else:
                    k = j  # a lone '-' is not a parameter
                sp = False
                if k < n and data[k] == 0x20:
                    sp = True
                    k += 1
                out.append(("cw", name, param, sp))
                i = k
            elif d == 0x27:
                hx = data[i + 2:i + 4]
                if len(hx) != 2 or not re.fullmatch(rb"[0-9a-fA-F]{2}", hx):
                    raise RTFError("malformed \\'hh escape")
                out.append(("hex", int(hx, 16)))
                i += 4
            elif d in (0x0A, 0x0D):
                out.append(("cw", "par", None, False))
                i += 2
            else:
                out.append(("sym", chr(d)))
                i += 2
        elif c in (0x0A, 0x0D):
            i += 1  # bare CR/LF are ignored
        else:
            j = i
            while j < n and data[j] not in (0x7B, 0x7D, 0x5C, 0x0A, 0x0D):
                j += 1
            out.append(("bytes", data[i:j]))
            i = j
    return out


# ------------------------------------------------------------------------------------------------
# model
# ------------------------------------------------------------------------------------------------
@dataclass
class Run:
    text: str
    props: dict


@dataclass
class Para:
    runs: list = field(default_factory=list)
    pprops: dict = field(default_factory=dict)
    in_table: bool = False

    @property
    def text(self):
        return "".join(r.text for r in self.runs)


@dataclass
class Cell:
    cellx: int
    borders: dict
    valign: str
    merge: str
    para: Para

    @property
    def text(self):
        return self.para.text


@dataclass
class Row:
    cells: list
    trgaph: int | None
    just: str | None
    defs: int = 0
    contents: int = 0


@dataclass
class Pict:
    kind: str
    picw: int | None
    pich: int | None
    wgoal: int | None
    hgoal: int | None
    data: bytes
    align: str | None = None


@dataclass
class Page:
    blocks: list = field(default_factory=list)
    settings: dict = field(default_factory=dict)
    break_settings: dict = field(default_factory=dict)


@dataclass
class Doc:
    fonts: dict = field(default_factory=dict)
    colors: list = field(default_factory=list)
    has_colortbl: bool = False
    header_groups: int = 0
    footer_groups: int = 0
    header_text: list = field(default_factory=list)
    footer_text: list = field(default_factory=list)
    settings: dict = field(default_factory=dict)
    pages: list = field(default_factory=list)
    errors: list = field(default_factory=list)
    top_level_groups: int = 0
    trailing: bytes = b""
    signature_ok: bool = False
    color_refs: list = field(default_factory=list)
    font_refs: list = field(default_factory=list)


def _cp1252(b: int) -> str:
    try:
        return bytes([b]).decode("cp1252")
    except UnicodeDecodeError:
        return "�"


class _State:
    __slots__ = ("cprops", "pprops", "uc", "dest")

    def __init__(self, cprops=None, pprops=None, uc=1, dest="body"):
        self.cprops = dict(cprops or {})
        self.pprops = dict(pprops or {})
        self.uc = uc
        self.dest = dest

    def copy(self):
        return _State(self.cprops, self.pprops, self.uc, self.dest)


def read(data) -> Doc:
    if isinstance(data, str):
        data = data.encode("utf-8")
    doc = Doc()
    try:
        toks = tokenize(data)
    except RTFError as e:
        doc.errors.append("lexical: %s" % e)
        return doc
    # ---- structural checks: one top-level group, nothing after it
    depth = 0
    closed_at = None
    for idx, t in enumerate(toks):
        if t[0] == "{":
            if depth == 0:
                doc.top_level_groups += 1
                if closed_at is not None:
                    doc.errors.append("second top-level group")
            depth += 1
        elif t[0] == "}":
            depth -= 1
            if depth < 0:
                doc.errors.append("unbalanced: '}' without '{'")
                depth = 0
            if depth == 0:
                closed_at = idx
        else:
            if depth == 0:
                if closed_at is not None:
                    doc.errors.append("content after the closing brace of the document: %r" % (t,))
                else:
                    doc.errors.append("content before the opening brace: %r" % (t,))
    if depth != 0:
        doc.errors.append("unbalanced groups: depth %d at end of input" % depth)
    if len(toks) >= 2 and toks[0][0] == "{" and toks[1][:3] == ("cw", "rtf", 1):
        doc.signature_ok = True
    else:
        doc.errors.append("missing {\\rtf1 signature")

    # ---- interpretation
    stack = []
    st = _State()
    page = Page()
    doc.pages.append(page)
    para = Para()
    rowdef = None          # dict while a \trowd definition is open
    pend_border = None     # side whose border properties are being defined
    pend = {}
    row_cells = []         # contents collected for the current row
    cur_settings = doc.settings
    skip = 0               # fallback characters still to skip after \uN
    pict = None
    pict_stack_depth = None
    fonttbl_cur = None
    color_cur = [None, None, None]
    field_inst = None
    hf_buf = None

    def flush_text(s):
        nonlocal para
        if not s:
            return
        if st.dest == "body":
            if para.runs and para.runs[-1].props == st.cprops:
                para.runs[-1].text += s
            else:
                para.runs.append(Run(s, dict(st.cprops)))
        elif st.dest in ("header", "footer"):
            hf_buf.append(s)
        elif st.dest == "fonttbl" and fonttbl_cur is not None:
            fonttbl_cur["name"] += s
        elif st.dest == "fldinst" and field_inst is not None:
            field_inst.append(s)

    def emit_char(ch):
        nonlocal skip
        if skip > 0:
            skip -= 1
            return
        flush_text(ch)

    def end_para(kind):
        nonlocal para, row_cells
        para.pprops = dict(st.pprops)
        if kind == "cell":
            para.in_table = True
            row_cells.append(para)
        else:
            if st.dest == "body":
                page.blocks.append(para)
        para = Para()

    i = 0
    n = len(toks)
    while i < n:
        t = toks[i]
        i += 1
        k = t[0]
        if k == "{":
            stack.append(st)
            st = st.copy()
            skip = 0
            # destination detection
            if i < n and toks[i][0] == "sym" and toks[i][1] == "*":
                nxt = toks[i + 1] if i + 1 < n else None
                if nxt and nxt[0] == "cw" and nxt[1] == "fldinst":
                    st.dest = "fldinst"
                    field_inst = []
                    i += 2
                else:
                    st.dest = "ignore"
                    i += 1
            continue
        if k == "}":
            if st.dest == "pict" and pict is not None and (not stack or stack[-1].dest != "pict"):
                hexdata = re.sub(rb"\s+", b"", bytes(pict["hex"]))
                try:
                    pict["data"] = bytes.fromhex(hexdata.decode("ascii"))
                except ValueError:
                    doc.errors.append("picture payload is not valid hexadecimal")
                    pict["data"] = b""
                page.blocks.append(Pict(pict["kind"], pict.get("picw"), pict.get("pich"), pict.get("picwgoal"),
                                        pict.get("pichgoal"), pict["data"], st.pprops.get("just")))
                pict = None
            if st.dest == "fonttbl" and fonttbl_cur is not None and (stack and stack[-1].dest == "fonttbl"):
                name = fonttbl_cur["name"].strip()
                if name.endswith(";"):
                    name = name[:-1]
                doc.fonts[fonttbl_cur["num"]] = {"name": name, "charset": fonttbl_cur.get("charset"),
                                                 "family": fonttbl_cur.get("family")}
                fonttbl_cur = None
            if st.dest == "fldinst" and field_inst is not None and (not stack or stack[-1].dest != "fldinst"):
                inst = "".join(field_inst).strip()
                field_inst = None
                prev = stack[-1] if stack else st
                old = st
                st = prev
                flush_text("⟨%s⟩" % inst)
                st = old
            if st.dest in ("header", "footer") and (not stack or stack[-1].dest not in ("header", "footer")):
                (doc.header_text if st.dest == "header" else doc.footer_text).append(_join_surrogates("".join(hf_buf)))
                hf_buf = None
            if stack:
                st = stack.pop()
            skip = 0
            continue
        if st.dest == "ignore":
            continue
        if k == "bytes":
            if st.dest == "pict":
                pict["hex"] += t[1]
                continue
            if st.dest == "colortbl":
                for b in t[1]:
                    if b == 0x3B:
                        if color_cur == [None, None, None]:
                            doc.colors.append(None)
                        else:
                            doc.colors.append(tuple(x or 0 for x in color_cur))
                        color_cur = [None, None, None]
                continue
            for b in t[1]:
                emit_char(chr(b) if b < 0x80 else _cp1252(b))
            continue
        if k == "hex":
            emit_char(_cp1252(t[1]) if t[1] >= 0x80 else chr(t[1]))
            continue
        if k == "sym":
            ch = t[1]
            if ch in "\\{}":
                emit_char(ch)
            elif ch == "~":
                emit_char(" ")
            elif ch == "_":
                emit_char("‑")
            elif ch == "-":
                pass
            elif ch == "*":
                pass
            else:
                doc.errors.append("unknown control symbol \\%s" % ch)
            continue
        # control word
        _, name, param, _sp = t
        if skip > 0:
            skip = 0  # a control word ends fallback skipping (spec: counts as one; be lenient)
        if st.dest == "pict":
            if name in ("pngblip", "jpegblip", "emfblip"):
                pict["kind"] = name
            elif name in ("picw", "pich", "picwgoal", "pichgoal"):
                pict[name] = param
            continue
        if name == "rtf" or name in ("ansi", "deff", "deflang", "ansicpg"):
            continue
        if name == "fonttbl":
            st.dest = "fonttbl"
            continue
        if st.dest == "fonttbl":
            if name == "f":
                fonttbl_cur = {"num": param, "name": ""}
            elif fonttbl_cur is not None:
                if name == "fcharset":
                    fonttbl_cur["charset"] = param
                elif name.startswith("f") and name not in ("fprq",):
                    fonttbl_cur["family"] = name
            continue
        if name == "colortbl":
            st.dest = "colortbl"
            doc.has_colortbl = True
            color_cur = [None, None, None]
            continue
        if st.dest == "colortbl":
            if name == "red":
                color_cur[0] = param
            elif name == "green":
                color_cur[1] = param
            elif name == "blue":
                color_cur[2] = param
            continue
        if name in ("header", "footer"):
            st.dest = name
            hf_buf = []
            if name == "header":
                doc.header_groups += 1
            else:
                doc.footer_groups += 1
            continue
        if name == "pict":
            st.dest = "pict"
            pict = {"kind": None, "hex": bytearray()}
            continue
        if name == "field":
            continue
        if name == "fldrslt":
            st.dest = "ignore"
            continue
        if name == "u":
            if param is None:
                doc.errors.append("\\u without parameter")
                continue
            if not (-32768 <= param <= 32767):
                doc.errors.append("\\u%d outside the signed 16-bit range" % param)
                flush_text("�")
                skip = st.uc
                continue
            cu = param if param >= 0 else param + 65536
            flush_text(chr(cu))  # surrogates are joined later
            skip = st.uc
            continue
        if name == "uc":
            st.uc = param if param is not None else 1
            continue
        if name in PAGE_WORDS:
            cur_settings[name] = param
            continue
        if name == "landscape":
            cur_settings["landscape"] = True
            continue
        if name == "page":
            if st.dest == "body":
                if para.runs:
                    end_para("par")
                page = Page()
                doc.pages.append(page)
                cur_settings = page.break_settings
            continue
        if name == "par":
            if st.dest == "body":
                end_para("par")
            elif st.dest in ("header", "footer"):
                hf_buf.append("\n")
            continue
        if name == "line":
            flush_text("\n")
            continue
        if name == "tab":
            flush_text("\t")
            continue
        if name == "chpgn":
            flush_text("⟨PAGE⟩")
            continue
        if name == "totalpage":
            flush_text("⟨TOTALPAGE⟩")
            continue
        if name == "pard":
            st.pprops = {}
            continue
        if name == "plain":
            st.cprops = {}
            continue
        # character properties
        if name == "f":
            st.cprops["f"] = param
            doc.font_refs.append(param)
            continue
        if name == "fs":
            st.cprops["fs"] = param
            continue
        if name in ("b", "i", "ul", "strike"):
            st.cprops[name] = (param != 0) if param is not None else True
            continue
        if name in ("super", "sub"):
            st.cprops["vert"] = name
            continue
        if name == "nosupersub":
            st.cprops.pop("vert", None)
            continue
        if name in ("cf", "cb", "chcbpat"):
            st.cprops[name] = param
            doc.color_refs.append((name, param))
            continue
        if name == "chshdng":
            continue
        # paragraph properties
        if name in ("ql", "qc", "qr", "qj", "qd"):
            st.pprops["just"] = name
            continue
        if name in ("fi", "li", "ri", "sb", "sa", "sl", "slmult"):
            st.pprops[name] = param
            continue
        if name == "hyphpar":
            st.pprops["hyphpar"] = 1 if param is None else param
            continue
        if name == "intbl":
            st.pprops["intbl"] = True
            continue
        # table
        if name == "trowd":
            rowdef = {"cells": [], "trgaph": None, "just": None}
            pend = {"borders": {}, "valign": "", "merge": ""}
            pend_border = None
            continue
        if name == "trgaph" and rowdef is not None:
            rowdef["trgaph"] = param
            continue
        if name in ("trql", "trqc", "trqr") and rowdef is not None:
            rowdef["just"] = name
            continue
        if name == "trleft":
            continue
        if name in ("clbrdrl", "clbrdrt", "clbrdrr", "clbrdrb"):
            pend_border = name[-1]
            pend.setdefault("borders", {})[pend_border] = {"style": "", "w": None, "cf": None}
            continue
        if name in BORDER_WORDS and pend_border is not None:
            pend["borders"][pend_border]["style"] = BORDER_WORDS[name]
            pend["borders"][pend_border]["word"] = name
            continue
        if name == "brdrw" and pend_border is not None:
            pend["borders"][pend_border]["w"] = param
            continue
        if name == "brdrcf" and pend_border is not None:
            pend["borders"][pend_border]["cf"] = param
            doc.color_refs.append(("brdrcf", param))
            continue
        if name in ("clvertalt", "clvertalc", "clvertalb"):
            pend["valign"] = name
            continue
        if name in ("clvmgf", "clvmrg"):
            pend["merge"] = name
            continue
        if name == "cellx":
            if rowdef is None:
                doc.errors.append("\\cellx outside a row definition")
            else:
                rowdef["cells"].append({"cellx": param, "borders": pend.get("borders", {}),
                                        "valign": pend.get("valign", ""), "merge": pend.get("merge", "")})
            pend = {"borders": {}, "valign": "", "merge": ""}
            pend_border = None
            continue
        if name == "cell":
            end_para("cell")
            continue
        if name == "row":
            defs = rowdef["cells"] if rowdef else []
            cells = []
            for j in range(max(len(defs), len(row_cells))):
                d = defs[j] if j < len(defs) else {"cellx": None, "borders": {}, "valign": "", "merge": ""}
                p = row_cells[j] if j < len(row_cells) else Para()
                cells.append(Cell(d["cellx"], d["borders"], d["valign"], d["merge"], p))
            r = Row(cells, rowdef["trgaph"] if rowdef else None, rowdef["just"] if rowdef else None,
                    defs=len(defs), contents=len(row_cells))
            if rowdef is None:
                doc.errors.append("\\row without \\trowd")
            page.blocks.append(r)
            row_cells = []
            rowdef = None
            continue
        # anything else: tolerated but recorded if it is not a known harmless word
        if name not in ("fprq", "froman", "fswiss", "fmodern", "ftech", "ffroman", "fcharset", "fldinst",
                        "sectd", "sect", "widowctrl", "viewkind", "lang", "cgrid"):
            doc.errors.append("unknown control word \\%s" % name) if name not in KNOWN_WORDS else None
    if para.runs and st.dest == "body":
        end_para("par")
    # join surrogate pairs in all texts
    for pg in doc.pages:
        for b in pg.blocks:
            paras = [b] if isinstance(b, Para) else ([c.para for c in b.cells] if isinstance(b, Row) else [])
            for p in paras:
                for r in p.runs:
                    r.text = _join_surrogates(r.text)
    return doc


KNOWN_WORDS = set()


def _join_surrogates(s: str) -> str:
    if not any(0xD800 <= ord(c) <= 0xDFFF for c in s):
        return s
    return s.encode("utf-16", "surrogatepass").decode("utf-16", "replace")


# ------------------------------------------------------------------------------------------------
# convenience views
# ------------------------------------------------------------------------------------------------
def rows_of(page):
    return [b for b in page.blocks if isinstance(b, Row)]


def paras_of(page):
    return [b for b in page.blocks if isinstance(b, Para)]


def all_text(doc):
    out = []
    for pg in doc.pages:
        for b in pg.blocks:
            if isinstance(b, Para):
                out.append(b.text)
            elif isinstance(b, Row):
                out.extend(c.text for c in b.cells)
    return out + doc.header_text + doc.footer_text


def wellformed_errors(doc):
    """Errors relevant to C01: structure, lexical validity, row consistency."""
    errs = list(doc.errors)
    if doc.top_level_groups != 1:
        errs.append("expected exactly one top-level group, found %d" % doc.top_level_groups)
    for pi, pg in enumerate(doc.pages):
        for b in pg.blocks:
            if isinstance(b, Row):
                if b.defs != b.contents:
                    errs.append("page %d: row declares %d cell boundaries but has %d cell contents" % (pi + 1, b.defs, b.contents))
                prev = 0
                for c in b.cells:
                    if c.cellx is None:
                        continue
                    if c.cellx <= 0:
                        errs.append("page %d: non-positive \\cellx%d" % (pi + 1, c.cellx))
                    if c.cellx < prev:
                        errs.append("page %d: decreasing \\cellx %d after %d" % (pi + 1, c.cellx, prev))
                    prev = c.cellx
    return errs
