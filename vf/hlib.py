"""Helpers imported by generated harnesses (run inside the CrossHair process and in replays)."""
from vf.fakes import Stub as NS  # noqa: F401  (namespace whose unknown attributes raise Unsupported)

try:
    import vf.ch_templates as tpl
except Exception:  # noqa: BLE001  (plain replay without crosshair importable)
    tpl = None

L, R = "\ue000", "\ue001"


class GluedDigit(Exception):
    pass


def holes_reset():
    if tpl is not None:
        tpl.reset()


def num_at(s, i):
    """Parse a rendered number at s[i:]: a hole token or [-]digits.  Returns (value, next_i) or None.
    The value is a (possibly symbolic) int."""
    n = len(s)
    if i < n and s[i] == L:
        j = s.index(R, i)
        if j + 1 < n and s[j + 1] in "0123456789":
            # a digit glued to a rendered number would be read as part of the number: the template
            # abstraction cannot represent that, so the text is reported as not decodable
            raise GluedDigit("digit follows a rendered number")
        return tpl.HOLES[int(s[i + 1:j])], j + 1
    j = i
    if j < n and s[j] == "-":
        j += 1
    k = j
    while k < n and s[k] in "0123456789":
        k += 1
    if k == j:
        return None
    return int(s[i:k]), k


def rtf_decode_text(out):
    """Decode an RTF *text run* (no groups) into a list of UTF-16 code units / control events.

    Returns None when the run contains something a reader would not decode to text:
    a raw character outside 7-bit ASCII (the file is UTF-8 bytes under \\ansi), a \\u value outside
    the signed 16-bit range, or a \\u not followed by the declared number of fallback characters.
    Elements: int code unit 0..65535, or ('ctl', name).
    """
    res = []
    uc = 1
    i = 0
    n = len(out)
    while i < n:
        ch = out[i]
        if ch == "\\":
            # control word / symbol
            j = i + 1
            if j < n and out[j] == "'":
                hx = out[j + 1:j + 3]
                res.append(("hex", hx))
                i = j + 3
                continue
            k = j
            while k < n and ("a" <= out[k] <= "z" or "A" <= out[k] <= "Z"):
                k += 1
            word = out[j:k]
            if word == "":
                return None
            num = num_at(out, k)
            val = None
            if num is not None:
                val, k = num
            # a single space after a control word is a delimiter
            if k < n and out[k] == " ":
                k += 1
            if word == "uc" and val is not None:
                uc = val
                i = k
                continue
            if word == "u" and val is not None:
                if not (-32768 <= val <= 32767):
                    return None
                res.append(val if val >= 0 else val + 65536)
                # skip exactly uc fallback characters
                for _ in range(uc):
                    if k >= n:
                        return None
                    if out[k] == "\\":
                        if out[k + 1:k + 2] == "'":
                            k += 4
                        else:
                            return None
                    elif out[k] in "{}":
                        return None
                    else:
                        k += 1
                i = k
                continue
            res.append(("ctl", word, val))
            i = k
            continue
        if ch in "{}":
            res.append(("grp", ch))
            i += 1
            continue
        o = ord(ch)
        if o >= 128:
            return None
        res.append(o)
        i += 1
    return res


def units_to_codepoints(units):
    """Combine UTF-16 surrogate pairs; None if a lone surrogate occurs."""
    res = []
    i = 0
    while i < len(units):
        u = units[i]
        if not isinstance(u, int):
            res.append(u)
            i += 1
            continue
        if 0xD800 <= u <= 0xDBFF:
            if i + 1 >= len(units) or not isinstance(units[i + 1], int):
                return None
            v = units[i + 1]
            if not (0xDC00 <= v <= 0xDFFF):
                return None
            res.append(0x10000 + (u - 0xD800) * 1024 + (v - 0xDC00))
            i += 2
            continue
        if 0xDC00 <= u <= 0xDFFF:
            return None
        res.append(u)
        i += 1
    return res


def decodes_to(out, cps):
    """True iff the text run `out` is read back by an RTF reader as exactly the code points cps."""
    try:
        units = rtf_decode_text(out)
    except GluedDigit:
        return False
    if units is None:
        return False
    got = units_to_codepoints(units)
    if got is None:
        return False
    if len(got) != len(cps):
        return False
    for g, c in zip(got, cps):
        if not isinstance(g, int):
            return False
        if g != c:
            return False
    return True


def brace_depth_ok(s):
    """Group depth never negative and 0 at the end; escaped \\{ \\} \\\\ ignored."""
    d = 0
    i = 0
    n = len(s)
    while i < n:
        c = s[i]
        if c == "\\" and i + 1 < n and s[i + 1] in "\\{}":
            i += 2
            continue
        if c == "{":
            d += 1
        elif c == "}":
            d -= 1
            if d < 0:
                return False
        i += 1
    return d == 0


def final_depth(s):
    d = 0
    i = 0
    n = len(s)
    while i < n:
        c = s[i]
        if c == "\\" and i + 1 < n and s[i + 1] in "\\{}":
            i += 2
            continue
        if c == "{":
            d += 1
        elif c == "}":
            d -= 1
        i += 1
    return d


def with_tc(fn):
    """Run fn() with the name TextContent in every loaded rtflite module bound to a NON-VALIDATING constructor
    (TextContent.model_construct): pydantic-core validates in Rust and would concretise symbolic field values.
    Assumption (listed as a stub): validation passes str/int/bool field values through unchanged."""
    import sys
    import rtflite.row as row
    real = row.TextContent

    def _tc(**kw):
        return real.model_construct(**kw)

    saved = []
    for name, m in list(sys.modules.items()):
        if name.startswith("rtflite") and getattr(m, "TextContent", None) is real:
            saved.append(m)
            m.TextContent = _tc
    try:
        return fn()
    finally:
        for m in saved:
            m.TextContent = real


def pick(seq, i):
    """seq[i] for a symbolic index i, returning the CONCRETE element (forks once per candidate) - needed where the value
    is handed to compiled code (pydantic-core) that rejects symbolic proxies"""
    for j in range(len(seq)):
        if i == j:
            return seq[j]
    raise IndexError(i)


def concrete_int(n, lo, hi):
    for c in range(lo, hi + 1):
        if n == c:
            return c
    raise ValueError(n)


def lex_ok(s):
    """every control sequence is lexically valid RTF; rendered numbers (holes) occur only as control-word parameters;
    no raw character outside 7-bit ASCII"""
    i, n = 0, len(s)
    while i < n:
        c = s[i]
        if c == "\\":
            if i + 1 >= n:
                return False
            d = s[i + 1]
            if ("a" <= d <= "z") or ("A" <= d <= "Z"):
                j = i + 1
                while j < n and (("a" <= s[j] <= "z") or ("A" <= s[j] <= "Z")):
                    j += 1
                if j - (i + 1) > 32:
                    return False
                if j < n and s[j] == L:
                    k = s.index(R, j)
                    j = k + 1
                    if j < n and s[j] in "0123456789":
                        return False
                else:
                    if j < n and s[j] == "-":
                        if not (j + 1 < n and s[j + 1] in "0123456789"):
                            i = j
                            continue
                        j += 1
                    k = j
                    while k < n and s[k] in "0123456789":
                        k += 1
                    if k - j > 10:
                        return False
                    j = k
                if j < n and s[j] == " ":
                    j += 1
                i = j
            elif d == "'":
                hx = s[i + 2:i + 4]
                if len(hx) != 2 or any(ch not in "0123456789abcdefABCDEF" for ch in hx):
                    return False
                i += 4
            elif d in "\\{}~_-*|:\n\r":
                i += 2
            else:
                return False
        elif c == L:
            return False            # a rendered number outside a control-word parameter
        else:
            if ord(c) >= 128:
                return False
            i += 1
    return True


# ---- run pure string scanners untraced when their input is a concrete str (tracing every loop iteration of a scan over
# a few hundred concrete characters dominates the cost of a path; symbolic strings still go through the traced version)
try:
    from crosshair.tracers import NoTracing as _NoTracing
except Exception:  # noqa: BLE001
    _NoTracing = None


def _fast_when_concrete(fn):
    def wrapper(s, *a):
        if _NoTracing is not None:
            with _NoTracing():
                concrete = type(s) is str
            if concrete:
                with _NoTracing():
                    return fn(s, *a)
        return fn(s, *a)
    wrapper.__name__ = fn.__name__
    wrapper.__doc__ = fn.__doc__
    return wrapper


lex_ok = _fast_when_concrete(lex_ok)
brace_depth_ok = _fast_when_concrete(brace_depth_ok)
final_depth = _fast_when_concrete(final_depth)


class ModuleState:
    """snapshot of the module-level mutable containers (dict / list / set) of a module; reset() restores their contents.
    Used at the start of history-sensitive harness bodies so that state (e.g. a memo added by a change) cannot leak from
    one explored path into the next - a counterexample must depend on the arguments only, or it would not replay."""

    def __init__(self, mod):
        self.mod = mod
        self.snap = {}
        for name, obj in vars(mod).items():
            if isinstance(obj, dict) and not name.startswith("__"):
                self.snap[name] = ("dict", dict(obj))
            elif isinstance(obj, list):
                self.snap[name] = ("list", list(obj))
            elif isinstance(obj, set):
                self.snap[name] = ("set", set(obj))

    def reset(self):
        def go():
            for name, (kind, content) in self.snap.items():
                obj = getattr(self.mod, name, None)
                if kind == "dict" and isinstance(obj, dict):
                    obj.clear()
                    obj.update(content)
                elif kind == "list" and isinstance(obj, list):
                    obj[:] = content
                elif kind == "set" and isinstance(obj, set):
                    obj.clear()
                    obj.update(content)
        if _NoTracing is not None:
            with _NoTracing():
                go()
        else:
            go()


class GlobalState:
    """Snapshot of the process-global mutable state of all loaded rtflite modules: module-level dict/list/set objects,
    class-level containers, container attributes of module-level singleton instances, and functools caches.
    reset() is called at the start of every explored path (generated prop/twin), so state written on one path - for
    example by a memo that a change introduced - cannot leak into the next one: a counterexample then depends on the
    harness arguments only and replays in a fresh interpreter.  History dependence itself is decided by the explicit
    history obligations (C14, C20-O3, C17-O4, ...), which build their histories inside one path."""

    def __init__(self):
        import sys
        self.items = []      # (container object, kind, saved content)
        self.caches = []
        seen = set()

        def add(obj):
            if id(obj) in seen:
                return
            if isinstance(obj, dict):
                seen.add(id(obj))
                self.items.append((obj, "dict", dict(obj)))
            elif isinstance(obj, list):
                seen.add(id(obj))
                self.items.append((obj, "list", list(obj)))
            elif isinstance(obj, set):
                seen.add(id(obj))
                self.items.append((obj, "set", set(obj)))

        for mname, mod in list(sys.modules.items()):
            if not mname.startswith("rtflite") or mod is None:
                continue
            for name, obj in list(vars(mod).items()):
                if name.startswith("__"):
                    continue
                add(obj)
                if callable(obj) and hasattr(obj, "cache_clear"):
                    self.caches.append(obj)
                if isinstance(obj, type) and getattr(obj, "__module__", "").startswith("rtflite"):
                    for cname, cobj in list(vars(obj).items()):
                        if cname.startswith("__") or cname.startswith("model_") or cname.startswith("_abc"):
                            continue
                        add(cobj)
                        f = getattr(cobj, "__func__", cobj)
                        if callable(f) and hasattr(f, "cache_clear"):
                            self.caches.append(f)
                elif hasattr(obj, "__dict__") and type(obj).__module__.startswith("rtflite") and not isinstance(obj, type):
                    for aname, aobj in list(vars(obj).items()):
                        add(aobj)

    def reset(self):
        def go():
            for obj, kind, content in self.items:
                if kind == "dict":
                    if obj != content:
                        obj.clear()
                        obj.update(content)
                elif kind == "list":
                    if obj != content:
                        obj[:] = content
                else:
                    if obj != content:
                        obj.clear()
                        obj.update(content)
            for f in self.caches:
                try:
                    f.cache_clear()
                except Exception:  # noqa: BLE001
                    pass
            # caches added after the snapshot (a change may create them lazily) are found again on every reset
            import sys
            for mname, mod in list(sys.modules.items()):
                if mname.startswith("rtflite") and mod is not None:
                    for name, obj in list(vars(mod).items()):
                        if callable(obj) and hasattr(obj, "cache_clear") and obj not in self.caches:
                            self.caches.append(obj)
                            obj.cache_clear()
        if _NoTracing is not None:
            with _NoTracing():
                go()
        else:
            go()


_GLOBAL_STATE = None


def reset_global_state():
    """called at the start of every explored path"""
    global _GLOBAL_STATE
    if _GLOBAL_STATE is None:
        _GLOBAL_STATE = GlobalState()
        return
    _GLOBAL_STATE.reset()


class swapped:
    """with swapped((real, stand_in), ...): every global name in every loaded rtflite module that is bound to the object
    `real` is bound to `stand_in` for the duration of the block (identity-based, so it does not matter which module the
    code under test imports the object into - a refactoring that moves a call into another module keeps being stubbed).
    The real polars module is additionally replaced in sys.modules for function-local imports."""

    def __init__(self, *pairs):
        self.pairs = [(r, s) for r, s in pairs if r is not None]
        self.saved = []
        self.sysmods = []

    def _enter(self):
        import sys
        import types
        for mname, mod in list(sys.modules.items()):
            if mod is None or not (mname == "rtflite" or mname.startswith("rtflite.")):
                continue
            d = vars(mod)
            for attr in list(d):
                val = d[attr]
                for real, repl in self.pairs:
                    if val is real:
                        self.saved.append((mod, attr, val))
                        setattr(mod, attr, repl)
                        break
        for real, repl in self.pairs:
            if isinstance(real, types.ModuleType) and sys.modules.get(real.__name__) is real:
                self.sysmods.append((real.__name__, real))
                sys.modules[real.__name__] = repl

    def _exit(self):
        import sys
        for mod, attr, val in reversed(self.saved):
            setattr(mod, attr, val)
        for name, real in self.sysmods:
            sys.modules[name] = real
        self.saved, self.sysmods = [], []

    def __enter__(self):
        if _NoTracing is not None:
            with _NoTracing():
                self._enter()
        else:
            self._enter()
        return self

    def __exit__(self, *a):
        if _NoTracing is not None:
            with _NoTracing():
                self._exit()
        else:
            self._exit()
        return False
