"""Harness helper: run the real paginate() methods on the polars model (vf.minipl)."""
from vf.fakes import Stub as NS
from vf import minipl
import rtflite.pagination.strategies.defaults as defaults
import rtflite.pagination.strategies.grouping as grouping
from rtflite.pagination.core import PageBreakCalculator as PBC
from rtflite.pagination.strategies.base import PageContext as _RealPageContext
from vf.hlib import swapped


def run_paginate(which, pages_of_rows, pageby_header, new_page=False, keys=None, table_attrs=None):
    n = len(pages_of_rows)
    keys = keys or {"g": ["G%d" % i for i in range(n)], "s": ["S%d" % i for i in range(n)]}
    df = minipl.Frame(dict(keys, v=["r%d" % i for i in range(n)]))
    starts = [i == 0 or any(keys[k][i] != keys[k][i - 1] for k in ("g",)) for i in range(n)]
    meta = minipl.Frame({"row_index": list(range(n)), "data_rows": [1] * n, "pageby_header_rows": [1 if s else 0 for s in starts],
                         "subline_header_rows": [0] * n, "column_header_rows": [0] * n,
                         "total_rows": [2 if s else 1 for s in starts], "continuation_header_rows": [0 if s else 1 for s in starts],
                         "page": list(pages_of_rows), "is_group_start": starts,
                         "is_subline_start": [i == 0 or keys["s"][i] != keys["s"][i - 1] for i in range(n)]})
    cls = [defaults.DefaultPaginationStrategy, grouping.PageByStrategy, grouping.SublineStrategy][which]
    body = NS(page_by=None if which == 0 else ["g"], subline_by=["s"] if which == 2 else None, new_page=new_page,
              pageby_header=pageby_header)
    ctx = NS(rtf_page=NS(width=8.5, height=11.0, margin=[1, 1, 1, 1, 1, 1], nrow=10, orientation="portrait"),
             rtf_body=body, df=df, col_widths=[1.0], table_attrs=table_attrs, removed_column_indices=None,
             additional_rows_per_page=0)
    saved_calc = PBC.calculate_row_metadata
    PBC.calculate_row_metadata = lambda self, **kw: meta
    def page_standin(**kw):
        """namespace with the real PageContext's field defaults, overridden by what the strategy passes"""
        fields = {}
        for name, f in _RealPageContext.model_fields.items():
            if not f.is_required():
                fields[name] = f.default_factory() if f.default_factory is not None else f.default
        fields.update(kw)
        return NS(**fields)
    try:
        with swapped((_RealPageContext, page_standin)), minipl.substituted():
            return cls().paginate(ctx)
    finally:
        PBC.calculate_row_metadata = saved_calc
