"""Obligation runner: generate harnesses, run CrossHair / z3 obligations in parallel, twins,
replay ladder, known findings, evidence.  See DESIGN.md section 3."""
from __future__ import annotations

import concurrent.futures as cf
import fnmatch
import hashlib
import json
import os
import re
import shutil
import subprocess
import sys
import tempfile
import time
from dataclasses import dataclass, field

VERIF = os.path.dirname(os.path.dirname(os.path.abspath(__file__)))
PY = os.path.join(VERIF, ".venv", "bin", "python")
REPO = os.environ.get("VF_REPO", "/repo")
KNOWN = os.path.join(VERIF, "known_findings.json")
EVIDENCE_DIR = os.environ.get("VF_EVIDENCE_DIR") or os.path.join(VERIF, "evidence")
REPLAY_DIR = os.environ.get("VF_REPLAY_DIR") or os.path.join(VERIF, "replays")
NCPU = int(os.environ.get("VF_JOBS", "0")) or min(16, os.cpu_count() or 4)

EXIT_OK, EXIT_VIOLATION, EXIT_HARNESS = 0, 1, 3


@dataclass
class Ob:
    """One proof obligation."""
    oid: str
    sig: str = ""                 # "cp: int, conv: bool"
    pre: list = field(default_factory=list)
    body: str = ""                # body of  def body(<sig>) -> bool   (indented 4)
    header: str = ""              # module level source (imports, helpers, optional api())
    templates: bool = False
    timeout: int = 60
    funcs: list = field(default_factory=list)
    api: bool = False             # header defines api(**kw) -> 'violated' | 'ok' | None
    kind: str = "ch"              # 'ch' CrossHair, 'py' engine B/C callable
    target: str = ""              # py: "vf.engb:name"
    kwargs: dict = field(default_factory=dict)
    bounds: str = ""
    what: str = ""
    twin: bool = True
    stubs: list = field(default_factory=list)

    def argnames(self):
        return [a.split(":")[0].strip() for a in self.sig.split(",") if a.strip()]

    def source(self, extra_pre=()):
        names = ", ".join(self.argnames())
        pre = "".join("    pre: %s\n" % p for p in list(self.pre) + list(extra_pre))
        doc = '    """\n' + pre + "    post: _\n" + '    """\n'
        return (
            "# generated harness for obligation %s -- regenerated on every run\n" % self.oid
            + "import sys\nsys.path.insert(0, %r)\n" % VERIF
            + self.header.rstrip() + "\n\n\n"
            + "def body(%s):\n%s\n\n\n" % (self.sig, self.body.rstrip())
            + "from vf.hlib import swapped  # noqa: F401\nfrom vf.hlib import reset_global_state as _vf_reset\n_vf_reset()      # snapshot of rtflite's process-global state\n\n\n"
            + "def prop(%s) -> bool:\n%s    _vf_reset()\n    return body(%s)\n\n\n" % (self.sig, doc, names)
            + "def twin(%s) -> bool:\n%s    _vf_reset()\n    body(%s)\n    return False\n" % (self.sig, doc, names)
        )


def _run_worker(argv, timeout):
    env = dict(os.environ)
    env["PYTHONPATH"] = VERIF + os.pathsep + os.path.join(REPO, "src") + os.pathsep + env.get("PYTHONPATH", "")
    env["PYTHONHASHSEED"] = "0"
    env.setdefault("POLARS_MAX_THREADS", "1")
    t0 = time.time()
    try:
        p = subprocess.run([PY, "-m", "vf.worker"] + argv, cwd=VERIF, env=env, capture_output=True,
                           text=True, timeout=timeout)
    except subprocess.TimeoutExpired:
        return {"verdict": "inconclusive", "reason": "process timeout %ss" % timeout, "paths": 0,
                "queries": 0, "solver_s": 0.0, "wall_s": round(time.time() - t0, 2)}
    for line in reversed(p.stdout.splitlines()):
        if line.startswith("VFRESULT "):
            r = json.loads(line[len("VFRESULT "):])
            r.setdefault("wall_s", round(time.time() - t0, 2))
            return r
    return {"verdict": "inconclusive", "reason": "worker produced no result (rc=%s): %s" % (
        p.returncode, (p.stderr or p.stdout)[-600:]), "paths": 0, "queries": 0, "solver_s": 0.0,
        "wall_s": round(time.time() - t0, 2)}


def load_known():
    if not os.path.exists(KNOWN):
        return []
    with open(KNOWN) as f:
        return json.load(f).get("findings", [])


def region_holds(region, args):
    env = dict(args.get("kw", {}))
    try:
        return bool(eval(region, {"__builtins__": {"len": len, "ord": ord, "chr": chr, "abs": abs,
                                                    "min": min, "max": max, "any": any, "all": all,
                                                    "range": range, "int": int, "str": str,
                                                    "set": set, "sorted": sorted, "bool": bool}}, env))
    except Exception:  # noqa: BLE001
        return False


class Run:
    def __init__(self, pid, tier, seed):
        self.pid, self.tier, self.seed = pid, tier, seed
        self.scratch = tempfile.mkdtemp(prefix="vf-%s-" % pid)
        self.t0 = time.time()
        self.results = []
        self.known_hits = []
        self.violations = []
        self.harness_errors = []
        self.witness = {"replayed": 0, "violations": 0, "samples": []}
        self.extra = {}
        self._printed = set()

    def note_known(self, k):
        """Record a hit of a listed known finding; print its KNOWN-FINDING line once."""
        key = (k.get("id"), k["what"])
        if key not in self._printed:
            self._printed.add(key)
            print("KNOWN-FINDING: property=%s %s" % (self.pid, k["what"]), flush=True)
        self.known_hits.append(k)

    def cleanup(self):
        shutil.rmtree(self.scratch, ignore_errors=True)

    # ---- single obligation -------------------------------------------------------------
    def _write(self, ob, extra_pre=(), tag=""):
        path = os.path.join(self.scratch, "h_%s%s.py" % (re.sub(r"[^A-Za-z0-9_]", "_", ob.oid), tag))
        with open(path, "w", encoding="utf-8") as f:
            f.write(ob.source(extra_pre))
        return path

    def _ch(self, path, func, ob):
        return _run_worker(["ch", path, func, str(ob.timeout), "1" if ob.templates else "0"],
                           timeout=ob.timeout * 2 + 60)

    def _call(self, path, func, args):
        return _run_worker(["call", path, func, json.dumps(args)], timeout=300)

    def solve(self, ob):
        """Run one obligation through the whole ladder; returns a result dict."""
        res = {"oid": ob.oid, "what": ob.what, "bounds": ob.bounds, "funcs": ob.funcs, "kind": ob.kind,
               "paths": 0, "queries": 0, "solver_s": 0.0, "status": "inconclusive", "reason": "",
               "known": [], "samples": [], "stubs": ob.stubs}
        if ob.kind == "py":
            r = _run_worker(["py", ob.target, json.dumps(ob.kwargs)], timeout=ob.timeout * 2 + 60)
            for k in ("paths", "queries", "solver_s"):
                res[k] += r.get(k, 0) or 0
            res["samples"] = r.get("samples", [])[:3]
            res["detail"] = {k: v for k, v in r.items() if k in ("model", "validated", "notes", "terms")}
            known = [k for k in load_known() if k.get("property") == self.pid
                     and fnmatch.fnmatch(ob.oid, k.get("obligation", "*"))]
            if r.get("verdict") == "confirmed":
                res["status"] = "discharged"
            elif r.get("verdict") == "counterexample":
                # py obligations replay on the real code themselves before answering
                res["cex"] = r.get("args")
                hits = [k for k in r.get("known_hits", [])]
                res["status"] = "violated"
                res["replay"] = r.get("replay")
            else:
                res["reason"] = r.get("reason", "") + (" " + r.get("traceback", "")[-400:] if r.get("traceback") else "")
            for h in r.get("known_hits", []):
                res["known"].append(h)
            res["wall_s"] = r.get("wall_s")
            return res

        extra_pre = []
        known = [k for k in load_known() if k.get("property") == self.pid
                 and fnmatch.fnmatch(ob.oid, k.get("obligation", "*"))]
        twin_future = None
        with cf.ThreadPoolExecutor(max_workers=2) as ex:
            path0 = self._write(ob)
            if ob.twin:
                twin_future = ex.submit(self._ch, path0, "twin", ob)
            round_no = 0
            while True:
                path = self._write(ob, extra_pre, tag="_r%d" % round_no)
                r = self._ch(path, "prop", ob)
                res["paths"] += r.get("paths", 0)
                res["queries"] += r.get("queries", 0)
                res["solver_s"] += r.get("solver_s", 0.0)
                if r.get("verdict") == "confirmed":
                    res["status"] = "discharged"
                    break
                if r.get("verdict") != "counterexample":
                    res["status"] = "inconclusive"
                    res["reason"] = r.get("reason", "") or r.get("message", "")
                    if r.get("traceback"):
                        res["reason"] += " | " + r["traceback"][-500:]
                    break
                args = r["args"]
                if args.get("pos"):
                    names = ob.argnames()
                    args = {"pos": [], "kw": dict(zip(names, args["pos"]), **args.get("kw", {}))}
                res["samples"].append(args)
                # 1. unit replay in a plain interpreter
                u = self._call(path, "body", args)
                if u.get("glue"):
                    res["status"] = "inconclusive"
                    res["reason"] = "harness glue error (outdated stand-in), not a property violation: " + str(u.get("exception"))[:200]
                    break
                if str(u.get("exception") or "").startswith("Unsupported"):
                    res["status"] = "inconclusive"
                    res["reason"] = "a stand-in does not model an operation the code under test uses: " + u["exception"][:200]
                    break
                reproduced = (u.get("exception") is not None) or (u.get("truthy") is False)
                if "returned" not in u and "exception" not in u:
                    reproduced = False
                if not reproduced:
                    res["status"] = "harness_error"
                    res["reason"] = "counterexample %r did not reproduce outside the solver: %r" % (args, u)
                    break
                # 2. API replay
                api_verdict = None
                if ob.api:
                    a = self._call(path, "api", args)
                    if a.get("exception"):
                        api_verdict = "error:" + a["exception"]
                    else:
                        api_verdict = a.get("returned")
                    if api_verdict is not None and "ok" in str(api_verdict) and "violated" not in str(api_verdict):
                        res["status"] = "inconclusive"
                        res["reason"] = ("unit counterexample %r is not reproduced through the public API "
                                         "(under-constrained harness)") % (args,)
                        res["unconfirmed"] = args
                        break
                # 3. known finding?
                hit = None
                for k in known:
                    if region_holds(k["region"], args):
                        hit = k
                        break
                if hit is not None and round_no < 8:
                    res["known"].append({"what": hit["what"], "args": args, "id": hit.get("id")})
                    extra_pre.append("not (%s)" % hit["region"])
                    round_no += 1
                    continue
                res["status"] = "violated"
                res["cex"] = args
                res["unit_replay"] = u
                res["api_replay"] = api_verdict
                res["message"] = r.get("message")
                res["harness"] = open(path, encoding="utf-8").read()
                break
            if twin_future is not None:
                t = twin_future.result()
                res["paths"] += t.get("paths", 0)
                res["queries"] += t.get("queries", 0)
                res["solver_s"] += t.get("solver_s", 0.0)
                res["twin"] = t.get("verdict")
                if res["status"] == "discharged" and t.get("verdict") != "counterexample":
                    res["status"] = "inconclusive"
                    res["reason"] = "vacuity guard: reachability twin was not refuted (%s %s)" % (
                        t.get("verdict"), t.get("reason", ""))
        res["solver_s"] = round(res["solver_s"], 3)
        return res

    # ---- all obligations -----------------------------------------------------------------
    def run_all(self, obs, jobs=None):
        jobs = jobs or max(1, NCPU - 4)  # each obligation runs prop + twin concurrently
        with cf.ThreadPoolExecutor(max_workers=jobs) as ex:
            futs = {ex.submit(self.solve, ob): ob for ob in obs}
            for f in cf.as_completed(futs):
                ob = futs[f]
                try:
                    r = f.result()
                except Exception as e:  # noqa: BLE001
                    r = {"oid": ob.oid, "status": "inconclusive", "reason": "runner error %r" % (e,),
                         "paths": 0, "queries": 0, "solver_s": 0.0, "known": [], "samples": [],
                         "funcs": ob.funcs, "bounds": ob.bounds, "what": ob.what, "stubs": ob.stubs}
                self.results.append(r)
                st = r["status"]
                line = "  [%s] %-14s %s paths=%s queries=%s solver=%.1fs" % (
                    self.pid, r["oid"], st.upper(), r.get("paths"), r.get("queries"), r.get("solver_s", 0))
                if st in ("inconclusive", "harness_error"):
                    line += "  -- " + str(r.get("reason", ""))[:300]
                print(line, flush=True)
        self.results.sort(key=lambda r: r["oid"])

    # ---- reporting ---------------------------------------------------------------------------
    def finish(self, meta):
        exit_code = EXIT_OK
        os.makedirs(EVIDENCE_DIR, exist_ok=True)
        for r in self.results:
            for k in r.get("known", []):
                self.note_known(k)
        for r in self.results:
            if r["status"] == "violated":
                d = os.path.join(REPLAY_DIR, self.pid)
                os.makedirs(d, exist_ok=True)
                h = hashlib.sha1(json.dumps(r.get("cex"), sort_keys=True, default=repr).encode()).hexdigest()[:10]
                path = os.path.join(d, "%s-%s.json" % (re.sub(r"[^A-Za-z0-9_.]", "_", r["oid"]), h))
                with open(path, "w") as f:
                    json.dump({"property": self.pid, "obligation": r["oid"], "what": r.get("what"),
                               "args": r.get("cex"), "unit_replay": r.get("unit_replay"),
                               "api_replay": r.get("api_replay"), "message": r.get("message"),
                               "replay": r.get("replay"), "harness": r.get("harness")}, f, indent=1, default=repr)
                print("VIOLATION property=%s replay=%s" % (self.pid, path), flush=True)
                print("  obligation %s: %s\n  counterexample: %s" % (r["oid"], r.get("what"), json.dumps(r.get("cex"), default=repr)[:600]), flush=True)
                self.violations.append(path)
                exit_code = EXIT_VIOLATION
        for w in self.witness.get("violation_paths", []):
            print("VIOLATION property=%s replay=%s" % (self.pid, w), flush=True)
            exit_code = EXIT_VIOLATION
        if exit_code == EXIT_OK and any(r["status"] == "harness_error" for r in self.results):
            exit_code = EXIT_HARNESS
            for r in self.results:
                if r["status"] == "harness_error":
                    print("HARNESS-ERROR property=%s obligation=%s %s" % (self.pid, r["oid"], r["reason"][:500]), flush=True)
        n = len(self.results)
        dis = sum(1 for r in self.results if r["status"] == "discharged")
        inconc = [{"obligation": r["oid"], "reason": str(r.get("reason", ""))[:400]} for r in self.results
                  if r["status"] in ("inconclusive", "harness_error")]
        paths = sum(r.get("paths", 0) or 0 for r in self.results)
        queries = sum(r.get("queries", 0) or 0 for r in self.results)
        solver_s = round(sum(r.get("solver_s", 0) or 0 for r in self.results), 2)
        funcs = sorted({f for r in self.results for f in r.get("funcs", [])})
        stubs = sorted({s for r in self.results for s in r.get("stubs", [])})
        samples = []
        for r in self.results[:6]:
            samples.append({"obligation": r["oid"], "what": r.get("what"), "bounds": r.get("bounds"),
                            "status": r["status"], "paths": r.get("paths"), "queries": r.get("queries"),
                            "counterexamples_seen": r.get("samples", [])[:2]})
        nontrivial = len({r["oid"] for r in self.results if r["status"] == "discharged"
                          and (r.get("twin") == "counterexample" or r.get("kind") == "py")})
        ev = {
            "property_id": self.pid,
            "tier": self.tier,
            "seed": self.seed,
            "level": "other",
            "coverage": {
                "explanation": meta.get("explanation", ""),
                "obligations": n,
                "discharged": dis,
                "inconclusive": inconc,
                "evaluations": int(paths + queries),
                "paths": int(paths),
                "queries": int(queries),
                "solver_s": solver_s,
                "distinct_nontrivial": nontrivial,
                "rule": "one case = one proof obligation (a generated harness over the real functions with "
                        "symbolic arguments, decided over all paths by CrossHair/z3, or one z3 query over a "
                        "trace of the real code); distinct = distinct obligation id; non-trivial = discharged "
                        "AND its reachability twin (same body, postcondition forced false) was refuted, i.e. "
                        "the assertion is reachable under the preconditions",
                "samples": samples,
                "functions_encoded": meta.get("functions", funcs),
                "function_hashes": function_hashes(meta.get("functions", funcs)),
                "bounds": meta.get("bounds", sorted({r.get("bounds") for r in self.results if r.get("bounds")})),
                "stubs": stubs,
                "outside_claim": meta.get("outside", []),
                "known_findings_hit": [k["what"] for k in self.known_hits],
                "witnesses_replayed": self.witness.get("replayed", 0),
                "witness_samples": self.witness.get("samples", [])[:3],
                "per_obligation": [{"id": r["oid"], "status": r["status"], "paths": r.get("paths"),
                                    "queries": r.get("queries"), "solver_s": r.get("solver_s"),
                                    "bounds": r.get("bounds")} for r in self.results],
                "engine_versions": engine_versions(),
                "exhaustive": False,
            },
            "assumptions": meta.get("assumptions", []) + ["stub: " + s for s in stubs] + [
                "every explored path starts from the process-global rtflite state of a fresh import (module/class-level "
                "containers, singleton attributes and functools caches are restored before each path); dependence on "
                "earlier calls is decided only by the explicit history obligations"],
            "wall_s": round(time.time() - self.t0, 2),
            "violations": len(self.violations) + len(self.witness.get("violation_paths", [])),
        }
        ev["coverage"].update(self.extra)
        with open(os.path.join(EVIDENCE_DIR, self.pid + ".json"), "w") as f:
            json.dump(ev, f, indent=1, default=repr)
        print("[%s] tier=%s obligations=%d discharged=%d inconclusive=%d known=%d violations=%d paths=%d queries=%d solver=%.1fs wall=%.1fs" % (
            self.pid, self.tier, n, dis, len(inconc), len(self.known_hits), ev["violations"], paths, queries,
            solver_s, ev["wall_s"]), flush=True)
        for i in inconc:
            print("  INCONCLUSIVE %s: %s" % (i["obligation"], i["reason"][:200]), flush=True)
        return exit_code


_EV = None


def engine_versions():
    global _EV
    if _EV is None:
        try:
            out = subprocess.run([PY, "-c", "import crosshair,z3,sys;print(crosshair.__version__, z3.get_version_string(), sys.version.split()[0])"],
                                 capture_output=True, text=True, timeout=60).stdout.split()
            _EV = {"crosshair-tool": out[0], "z3": out[1], "python": out[2]}
        except Exception:  # noqa: BLE001
            _EV = {}
    return _EV


def function_hashes(funcs):
    """sha1 of the current source of each encoded function (shows the encoding follows the tree)."""
    code = (
        "import sys, json, hashlib, inspect, importlib\n"
        "out = {}\n"
        "for q in json.loads(sys.argv[1]):\n"
        "    try:\n"
        "        m, _, a = q.partition(':')\n"
        "        o = importlib.import_module(m)\n"
        "        for part in a.split('.'):\n"
        "            o = inspect.getattr_static(o, part) if inspect.isclass(o) else getattr(o, part)\n"
        "        o = getattr(o, '__func__', o)\n"
        "        out[q] = hashlib.sha1(inspect.getsource(o).encode()).hexdigest()[:12]\n"
        "    except Exception as e:\n"
        "        out[q] = 'unavailable: %s' % type(e).__name__\n"
        "print(json.dumps(out))\n"
    )
    try:
        env = dict(os.environ)
        env["PYTHONPATH"] = os.path.join(REPO, "src")
        p = subprocess.run([PY, "-c", code, json.dumps(list(funcs))], capture_output=True, text=True, timeout=120, env=env)
        return json.loads(p.stdout.strip().splitlines()[-1])
    except Exception:  # noqa: BLE001
        return {}
