def fixed(text: str) -> str:
    converted_text = ""
    for char in text:
        unicode_int = ord(char)
        if unicode_int <= 127:
            converted_text += char
        elif unicode_int > 0xFFFF:
            v = unicode_int - 0x10000
            hi = 0xD800 + (v >> 10)
            lo = 0xDC00 + (v & 0x3FF)
            converted_text += f"\\uc1\\u{hi - 65536}*\\uc1\\u{lo - 65536}*"
        else:
            rtf_value = unicode_int - (0 if unicode_int < 32768 else 65536)
            converted_text += f"\\uc1\\u{rtf_value}*"
    return converted_text

def decode_units(out: str):
    units = []
    i = 0
    while i < len(out):
        if out.startswith("\\uc1\\u", i):
            j = out.index("*", i)
            v = int(out[i+6:j])
            if not (-32768 <= v <= 32767):
                return None
            units.append(v if v >= 0 else v + 65536)
            i = j + 1
        else:
            if ord(out[i]) > 127: return None
            units.append(ord(out[i]))
            i += 1
    return units

def c_range(cp: int) -> bool:
    """
    pre: 32 <= cp <= 0x10FFFF and not (0xD800 <= cp <= 0xDFFF) and not (0x7f <= cp <= 0x9f)
    pre: cp not in (92, 123, 125)
    post: _
    """
    out = fixed(chr(cp))
    u = decode_units(out)
    if u is None: return False
    if len(u) == 1: return u[0] == cp
    if len(u) == 2:
        return 0xD800 <= u[0] < 0xDC00 and 0xDC00 <= u[1] < 0xE000 and 0x10000 + ((u[0]-0xD800) << 10) + (u[1]-0xDC00) == cp
    return False
