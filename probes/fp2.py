import z3, time, sys
n = int(sys.argv[1])
F = z3.Float64(); rne = z3.RNE()
def V(x): return z3.FPVal(x, F)
W = z3.FP("W", F)
ws = [z3.FP(f"w{i}", F) for i in range(n)]
s = z3.Solver()
s.set("timeout", 300000)
s.add(z3.fpGEQ(W, V(2.0)), z3.fpLEQ(W, V(12.0)))
for w in ws: s.add(z3.fpGEQ(w, V(0.2)), z3.fpLEQ(w, V(10.0)))
# total = sum(rel_widths): python sum starts from int 0 -> 0 + w0 exact
tot = ws[0]
for w in ws[1:]: tot = z3.fpAdd(rne, tot, w)
cum = V(0.0)
for w in ws:
    cum = z3.fpAdd(rne, cum, z3.fpDiv(rne, z3.fpMul(rne, w, W), tot))
last = z3.fpRoundToIntegral(z3.RNE(), z3.fpMul(rne, cum, V(1440.0)))
ref = z3.fpRoundToIntegral(z3.RNE(), z3.fpMul(rne, W, V(1440.0)))
s.add(z3.Not(z3.fpEQ(last, ref)))
t = time.time(); r = s.check(); print(n, r, round(time.time() - t, 1))
if str(r) == "sat":
    m = s.model()
    def val(x): 
        import fractions
        return float(fractions.Fraction(str(m.eval(z3.fpToReal(x), model_completion=True).as_fraction())))
    print("W", val(W), [val(w) for w in ws])
