import polars as pl, rtflite as rtf, traceback
df = pl.DataFrame({"a": ["x","y","z"], "b": [1,2,3]})
def t(name, f):
    try:
        s = f()
        print(name, "OK", len(s))
        return s
    except BaseException as e:
        print(name, "EXC", type(e).__name__, str(e)[:200])
t("plain", lambda: rtf.RTFDocument(df=df).rtf_encode())
t("as_colheader=False", lambda: rtf.RTFDocument(df=df, rtf_body=rtf.RTFBody(as_colheader=False)).rtf_encode())
t("font 9.5", lambda: rtf.RTFDocument(df=df, rtf_body=rtf.RTFBody(text_font_size=9.5)).rtf_encode())
t("border bad", lambda: rtf.RTFBody(border_left="zzz"))
t("cell_height -1", lambda: rtf.RTFBody(cell_height=-1))
t("page nrow 0", lambda: rtf.RTFPage(nrow=0))
t("page border bad", lambda: rtf.RTFPage(border_first="zzz"))
s = t("latin1", lambda: rtf.RTFDocument(df=pl.DataFrame({"a": ["é", "\U0001F600", "±"]})).rtf_encode())
import re
print([l for l in s.splitlines() if "cell" in l and "pard" in l][-3:])
t("empty df", lambda: rtf.RTFDocument(df=pl.DataFrame({"a": []}, schema={"a": pl.Utf8})).rtf_encode())
t("colheader none", lambda: rtf.RTFDocument(df=df, rtf_column_header=[]).rtf_encode())
