import sys
n = int(sys.argv[1])
hs = ", ".join(f"h{i}: int" for i in range(n))
ss = ", ".join(f"s{i}: bool" for i in range(1, n))
gs = ", ".join(f"g{i}: bool" for i in range(1, n))
pre_h = " and ".join(f"h{i} >= 1" for i in range(n))
print(f'''
from p_assign import run
def check({hs}, {ss}, {gs}, nrow: int, add: int, new_page: bool) -> bool:
    """
    pre: {pre_h}
    pre: nrow >= 1 and add >= 0
    post: _
    """
    heights = [{", ".join(f"h{i}" for i in range(n))}]
    S = [True, {", ".join(f"s{i}" for i in range(1, n))}]
    G = [True, {", ".join(f"g{i}" for i in range(1, n))}]
    pages = run(heights, S, G, nrow, add, new_page)
    avail = max(1, nrow - add)
    ok = pages[0] == 1
    cur = heights[0]
    for i in range(1, {n}):
        force = S[i] or (new_page and G[i])
        brk = force or (cur + heights[i] > avail)
        if brk:
            ok = ok and pages[i] == pages[i-1] + 1
            cur = heights[i]
        else:
            ok = ok and pages[i] == pages[i-1]
            cur += heights[i]
    return ok
''')
