import z3, time, sys
n = int(sys.argv[1])
W = z3.Real("W"); ws = [z3.Real(f"w{i}") for i in range(n)]
s = z3.Solver(); s.set("timeout", 120000)
s.add(W >= 2, W <= 12)
for w in ws: s.add(w >= z3.Q(1,5), w <= 10)
T = z3.Sum(ws)
cum = z3.RealVal(0); outs = []
for w in ws:
    cum = cum + (w * W / T); outs.append(cum)
# negated property: last != W or some interior boundary not proportional or not increasing
bad = [outs[-1] != W]
acc = z3.RealVal(0)
for i, w in enumerate(ws):
    acc = acc + w
    bad.append(outs[i] * T != acc * W)
    bad.append(outs[i] <= (outs[i-1] if i else 0))
s.add(z3.Or(bad))
t = time.time(); r = s.check(); print(n, r, round(time.time()-t, 2))
