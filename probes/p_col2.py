from rtflite.services.color_service import color_service as svc
from rtflite.row import Utils

NAMES = ["c0", "c1", "c2"]
def with_tables(r0, r1, r2, fn):
    saved = (svc._name_to_type, svc._name_to_rtf, svc._name_to_rgb, svc._current_document_colors)
    svc._name_to_type = {"c0": r0, "c1": r1, "c2": r2, "black": 0}
    svc._name_to_rtf = {"c0": "RTF0;", "c1": "RTF1;", "c2": "RTF2;", "black": "K;"}
    try:
        return fn()
    finally:
        svc._name_to_type, svc._name_to_rtf, svc._name_to_rgb, svc._current_document_colors = saved

def idx_ok(r0: int, r1: int, r2: int, u0: bool, u1: bool, u2: bool, pre_none: bool, p0: bool, p1: bool) -> bool:
    """
    pre: r0 > 0 and r1 > 0 and r2 > 0 and r0 != r1 and r1 != r2 and r0 != r2
    post: _
    """
    def body():
        used = [n for n, u in zip(NAMES, (u0, u1, u2)) if u]
        svc.set_document_context(used_colors=used)
        table = svc.generate_rtf_color_table(used)
        entries = table.split("\n")[1:-1] if table else []
        ok = (len(entries) > 0) == (len(used) > 0)
        for n in used:
            i = Utils._get_color_index(n)
            ok = ok and 1 <= i <= len(entries) and entries[i - 1] == svc._name_to_rtf[n]
        ok = ok and Utils._get_color_index("black") == 0 and Utils._get_color_index("") == 0
        return ok
    return with_tables(r0, r1, r2, body)

def stale_ctx(r0: int, r1: int, r2: int, u0: bool, u1: bool, u2: bool, pre_none: bool, p0: bool, p1: bool) -> bool:
    """
    pre: r0 > 0 and r1 > 0 and r2 > 0 and r0 != r1 and r1 != r2 and r0 != r2
    post: _
    """
    # arbitrary residual context, and NO set_document_context (what multi-section/figure paths do today)
    def body():
        used = [n for n, u in zip(NAMES, (u0, u1, u2)) if u]
        svc._current_document_colors = None if pre_none else [n for n, u in zip(NAMES, (p0, p1, True)) if u]
        table = svc.generate_rtf_color_table(used)
        entries = table.split("\n")[1:-1] if table else []
        ok = True
        for n in used:
            i = Utils._get_color_index(n)
            ok = ok and 1 <= i <= len(entries) and entries[i - 1] == svc._name_to_rtf[n]
        return ok
    return with_tables(r0, r1, r2, body)
