from types import SimpleNamespace as NS
import polars as pl
import rtflite as rtf
from rtflite.pagination.processor import PageFeatureProcessor

DF = pl.DataFrame({"a": ["1", "2"], "b": ["3", "4"]})
PLACE = ["first", "last", "all"]

def borders(is_first: bool, is_last: bool, has_hdr: bool, fn: bool, fn_tab: bool, src: bool, src_tab: bool,
            pf: int, ps: int) -> bool:
    """
    pre: 0 <= pf <= 2 and 0 <= ps <= 2
    post: _
    """
    body = rtf.RTFBody(border_first="dashed", border_last="dotted", border_top="", border_bottom="")
    page_cfg = NS(border_first="double", border_last="thick", page_footnote=PLACE[pf], page_source=PLACE[ps])
    doc = NS(rtf_body=body, rtf_page=page_cfg,
             rtf_column_header=[object()] if has_hdr else [],
             rtf_footnote=NS(text="f", as_table=fn_tab) if fn else None,
             rtf_source=NS(text="s", as_table=src_tab) if src else None)
    page = NS(table_attrs=body, data=DF, is_first_page=is_first, is_last_page=is_last, component_borders={})
    attrs = PageFeatureProcessor()._apply_pagination_borders(doc, page)
    def shown(place): return place == "all" or (place == "first" and is_first) or (place == "last" and is_last)
    fn_on = fn and shown(PLACE[pf]); src_on = src and shown(PLACE[ps])
    # which table row is last on this page?
    last_comp = "source" if (src_on and src_tab) else ("footnote" if (fn_on and fn_tab) else None)
    want = "thick" if is_last else "dotted"
    if last_comp is None:
        got = attrs.border_bottom[-1]
        ok_bottom = all(x == want for x in got)
    else:
        ok_bottom = page.component_borders.get(last_comp) == want
    top = attrs.border_top[0]
    want_top = ("double" if not has_hdr else "dashed") if is_first else "dashed"
    return ok_bottom and all(x == want_top for x in top)
