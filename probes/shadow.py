"""Prototype of engine B: shadow-valued numeric proxies tracing the real code into z3 FP terms."""
import z3, warnings, re
warnings.simplefilter("ignore", DeprecationWarning)
F = z3.Float64(); RNE = z3.RNE()
HOLES = []
def fp(x): return x.t if isinstance(x, SFloat) else (z3.fpToFP(RNE, x.t, F) if isinstance(x, SInt) else z3.FPVal(float(x), F))
class SFloat(float):
    def __new__(cls, shadow, term):
        o = float.__new__(cls, shadow); o.t = term; return o
    def __mul__(s, o): return SFloat(float(s) * float(o), z3.fpMul(RNE, fp(s), fp(o)))
    __rmul__ = __mul__
    def __round__(s, nd=None):
        assert nd is None
        return SInt(round(float(s)), z3.fpToSBV(RNE, z3.fpRoundToIntegral(RNE, s.t), z3.BitVecSort(64)))
    def __int__(s):
        return SInt(int(float(s)), z3.fpToSBV(z3.RTZ(), z3.fpRoundToIntegral(z3.RTZ(), s.t), z3.BitVecSort(64)))
    __trunc__ = __int__
class SInt(int):
    def __new__(cls, shadow, term):
        o = int.__new__(cls, shadow); o.t = term; return o
    def __int__(s): return s
    def __format__(s, spec):
        HOLES.append(s); return f"{len(HOLES)-1}"
    __str__ = lambda s: s.__format__("")

from types import SimpleNamespace as NS
from rtflite.services.encoding_service import RTFEncodingService
import builtins, rtflite.services.encoding_service as m1, rtflite.rtf.syntax as m2, rtflite.core.constants as m3, rtflite.row as m4
def sym_int(x=0, *a):
    if isinstance(x, (SFloat, SInt)) and not a:
        return x.__int__()
    return builtins.int(x, *a)
for m in (m1, m2, m3, m4): m.int = sym_int
svc = RTFEncodingService()
w = SFloat(8.5, z3.FP("w", F)); h = SFloat(11.0, z3.FP("h", F))
cfg = NS(width=w, height=h, margin=[1.25, 1, 1.75, 1.25, 1.75, 1.00625], orientation="portrait")
brk = svc.encode_page_break(cfg, lambda: svc.encode_page_margin(cfg))
start = svc.encode_page_settings(cfg)
print(repr(brk)); print(repr(start))
def hole_after(s, kw):
    m = re.search(re.escape(kw) + "(\\d+)", s); return HOLES[int(m.group(1))]
a = hole_after(brk, "\\paperw"); b = hole_after(start, "\\paperw")
s = z3.Solver()
s.add(z3.fpGEQ(w.t, z3.FPVal(1.0, F)), z3.fpLEQ(w.t, z3.FPVal(60.0, F)))
s.add(a.t != b.t)
import time; t = time.time(); r = s.check(); print(r, round(time.time() - t, 2))
if str(r) == "sat":
    m = s.model(); v = m[z3.FP("w", F)]
    import struct
    print(v, m.eval(a.t), m.eval(b.t))
