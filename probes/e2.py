import polars as pl, rtflite as rtf, re
df = pl.DataFrame({"g": ["A"]*10, "v": [str(i) for i in range(10)]})
doc = rtf.RTFDocument(df=df, rtf_page=rtf.RTFPage(nrow=5), rtf_column_header=[], rtf_title=None,
                      rtf_body=rtf.RTFBody(page_by=["g"]))
s = doc.rtf_encode()
pages = s.split("\\page")
for i, p in enumerate(pages):
    print("page", i+1, "rows:", p.count("\\row"), "cells:", re.findall(r"\{\\f0 ([^}]*)\}\\cell", p))
# default header with page_by -> width mismatch?
doc = rtf.RTFDocument(df=df, rtf_page=rtf.RTFPage(nrow=50), rtf_body=rtf.RTFBody(page_by=["g"]))
s = doc.rtf_encode()
rows = s.split("\\trowd")[1:]
for r in rows[:3]:
    print(re.findall(r"\\cellx(\d+)", r))
# default auto header counted in budget?
df2 = pl.DataFrame({"a": [str(i) for i in range(10)]})
s = rtf.RTFDocument(df=df2, rtf_page=rtf.RTFPage(nrow=5)).rtf_encode()
for i, p in enumerate(s.split("\\page")):
    print("page", i+1, "rows:", p.count("\\row"))
