from rtflite.row import Utils

def cw3(a: float, b: float, c: float, W: float) -> bool:
    """
    pre: 0.2 <= a <= 10 and 0.2 <= b <= 10 and 0.2 <= c <= 10 and 2 <= W <= 12
    post: _
    """
    out = Utils._col_widths([a, b, c], W)
    T = a + b + c
    eps = 1e-9
    return (len(out) == 3 and abs(out[2] - W) < eps and abs(out[0] * T - a * W) < eps
            and abs(out[1] * T - (a + b) * W) < eps and 0 < out[0] < out[1] < out[2])

def tw(a: float, b: float, c: float, W: float) -> bool:
    """
    pre: 0.2 <= a <= 10 and 0.2 <= b <= 10 and 0.2 <= c <= 10 and 2 <= W <= 12
    post: _
    """
    out = Utils._col_widths([a, b, c], W)
    t = [Utils._inch_to_twip(x) for x in out]
    return 0 < t[0] <= t[1] <= t[2] and abs(t[2] - W * 1440) <= 1
