from types import SimpleNamespace
from rtflite.row import TextContent

ALPHA = "^_><=a \n"
def ref(text: str) -> str:
    """Independent reference for the special-sequence clause (no LaTeX commands in ALPHA)."""
    out = ""
    i = 0
    while i < len(text):
        two = text[i:i + 2]
        c = text[i]
        if two == ">=":
            out += "\\uc1\\u8805* "; i += 2
        elif two == "<=":
            out += "\\uc1\\u8804* "; i += 2
        elif c == "^":
            out += "\\super "; i += 1
        elif c == "_":
            out += "\\sub "; i += 1
        elif c == "\n":
            out += "\\line "; i += 1
        else:
            out += c; i += 1
    return out

def conv2(a: int, b: int, c: int) -> bool:
    """
    pre: 0 <= a < 8 and 0 <= b < 8 and 0 <= c < 8
    post: _
    """
    text = ALPHA[a] + ALPHA[b] + ALPHA[c]
    ns = SimpleNamespace(text=text, convert=True)
    return TextContent._convert_special_chars(ns) == ref(text)

def conv2s(a: str, b: str) -> bool:
    """
    pre: len(a) == 1 and len(b) == 1 and a in "^_><=a \\n" and b in "^_><=a \\n"
    post: _
    """
    text = a + b
    ns = SimpleNamespace(text=text, convert=True)
    return TextContent._convert_special_chars(ns) == ref(text)
