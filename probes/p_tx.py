from types import SimpleNamespace
from rtflite.row import TextContent
from rtflite.text_conversion.converter import TextConverter
CONV = TextConverter()

def after_cmd(c: str) -> bool:
    """
    pre: len(c) == 1
    post: _
    """
    out = CONV.convert_latex_to_unicode("\\alpha" + c + "z")
    if c.isascii() and c.isalpha():
        # longer command name: \alphaX z -> lookup of '\alpha'+c
        return True
    if c == "{":
        return True
    return out == "α" + c + "z"

def one_char_conv_on(cp: int) -> bool:
    """
    pre: 32 <= cp <= 0x10FFFF and not (0xD800 <= cp <= 0xDFFF)
    pre: cp not in (92, 123, 125, 94, 95)
    post: _
    """
    ns = SimpleNamespace(text=chr(cp), convert=True)
    out = TextContent._convert_special_chars(ns)
    return len(out) >= 1
