from types import SimpleNamespace
from rtflite.row import TextContent

def esc(cp: int) -> str:
    ns = SimpleNamespace(text=chr(cp), convert=False)
    return TextContent._convert_special_chars(ns)

def c_range(cp: int) -> bool:
    """
    pre: 32 <= cp <= 0x10FFFF and not (0xD800 <= cp <= 0xDFFF) and not (0x7f <= cp <= 0x9f)
    pre: cp not in (92, 123, 125)
    post: _
    """
    out = esc(cp)
    if len(out) == 1:
        return ord(out) == cp and cp < 128
    # must be \uc1\uN* form
    if not (out.startswith("\\uc1\\u") and out.endswith("*")):
        return False
    v = int(out[6:-1])
    if not (-32768 <= v <= 32767):
        return False
    return (v if v >= 0 else v + 65536) == cp

def c_twin(cp: int) -> bool:
    """
    pre: 32 <= cp <= 0x10FFFF and not (0xD800 <= cp <= 0xDFFF)
    post: _
    """
    out = esc(cp)
    return len(out) == 1
