"""CrossHair plugin: keep ints symbolic across f-string rendering ("symbolic templates")."""
import crosshair.core as core
from crosshair.libimpl import builtinslib as bl
from crosshair.tracers import NoTracing

HOLES = []
_orig_format = bl._format
_orig_str = bl._str
L, R = "", ""

def _hole(obj):
    HOLES.append(obj)
    return f"{L}{len(HOLES) - 1}{R}"

def vf_format(obj, format_spec=""):
    with NoTracing():
        if type(obj) is bl.SymbolicInt and type(format_spec) is str and format_spec == "":
            return _hole(obj)
        if isinstance(format_spec, bl.AnySymbolicStr):
            format_spec = bl.realize(format_spec)
        if format_spec in ("", "s") and isinstance(obj, bl.AnySymbolicStr):
            return obj
        obj = bl.deep_realize(obj)
        result = bl.invoke_dunder(obj, "__format__", format_spec)
        if result is not bl._MISSING:
            return result
        return format(obj, format_spec)

def vf_str(*a):
    with NoTracing():
        if len(a) == 1:
            (self,) = a
            if type(self) is bl.SymbolicInt:
                return _hole(self)
            if isinstance(self, bl.AnySymbolicStr):
                return self
            with bl.ResumedTracing():
                return bl.invoke_dunder(self, "__str__")
        return str(*a)

def make_registrations():
    core._PATCH_REGISTRATIONS[format] = vf_format
    core._PATCH_REGISTRATIONS[str] = vf_str

make_registrations()
