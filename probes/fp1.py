import z3, time
# exists w in [1, 60]: int(w*1440) != round(w*1440)   (Python semantics: int=trunc, round=half-even)
w = z3.FP("w", z3.Float64())
rne = z3.RNE()
prod = z3.fpMul(rne, w, z3.FPVal(1440.0, z3.Float64()))
tr = z3.fpRoundToIntegral(z3.RTZ(), prod)
rd = z3.fpRoundToIntegral(z3.RNE(), prod)
s = z3.Solver()
s.add(z3.fpGEQ(w, z3.FPVal(1.0, z3.Float64())), z3.fpLEQ(w, z3.FPVal(60.0, z3.Float64())))
s.add(z3.Not(z3.fpEQ(tr, rd)))
t = time.time(); r = s.check(); print(r, time.time() - t)
if str(r) == "sat":
    m = s.model(); print(m[w], eval(str(m.eval(z3.fpToReal(w)).as_decimal(20)).rstrip("?")))
