import io
import rtflite.assemble as asm

LINES = ["{\\fonttbl{\\f0 fcharset}\n", "}\n", "{x}\n", "y\n", "\n"]   # classes: font line, close, balanced group, plain, blank

class FS:
    def __init__(self, files): self.files = dict(files); self.written = {}
    def open(self, path, mode="r", encoding=None):
        fs = self
        if "w" in mode:
            class W(io.StringIO):
                def close(s): fs.written[path] = s.getvalue(); io.StringIO.close(s)
                def __exit__(s, *a): s.close()
            return W()
        return io.StringIO(self.files[path])
    def exists(self, p): return p in self.files

def mk(a, b):
    # rtflite output grammar G: opener, font line, '}', two symbolic body lines, final '}'
    return "{\\rtf1\n" + LINES[0] + "}\n" + LINES[a] + LINES[b] + "}"

def depth_ok(s):
    d = 0
    for i, ch in enumerate(s):
        if ch == "{": d += 1
        elif ch == "}":
            d -= 1
            if d < 0 or (d == 0 and s[i + 1:].strip() != ""): return False
    return d == 0

def two(a: int, b: int, c: int, d: int) -> bool:
    """
    pre: 2 <= a <= 4 and 2 <= b <= 4 and 2 <= c <= 4 and 2 <= d <= 4
    post: _
    """
    fs = FS({"f1": mk(a, b), "f2": mk(c, d)})
    saved = (asm.os.path.exists,)
    asm.open = fs.open
    try:
        import os
        os_exists = os.path.exists
        asm.os.path.exists = fs.exists
        asm.assemble_rtf(["f1", "f2"], "out")
    finally:
        del asm.open
        asm.os.path.exists = saved[0]
    out = fs.written["out"]
    body1 = LINES[a] + LINES[b]; body2 = LINES[c] + LINES[d]
    i = out.find(body1); j = out.find("\\page\n"); k = out.rfind(body2)
    return depth_ok(out) and 0 < i < j < k and out.count("\\page\n") == 1
