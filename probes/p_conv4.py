from types import SimpleNamespace
from rtflite.row import TextContent
import vfplugin as vf
from p_conv3 import fixed

def units(out: str):
    """Split escape-layer output into code units (concrete ints or symbolic holes)."""
    res = []
    i = 0
    while i < len(out):
        if out.startswith("\\uc1\\u", i):
            j = out.index("*", i)
            body = out[i + 6:j]
            if body.startswith(vf.L):
                res.append(vf.HOLES[int(body[1:-1])])
            else:
                res.append(int(body))
            i = j + 1
        else:
            res.append(("raw", out[i]))
            i += 1
    return res

def check(out, cp) -> bool:
    u = units(out)
    if len(u) == 1 and isinstance(u[0], tuple):
        return cp < 128 and ord(u[0][1]) == cp
    vals = []
    for x in u:
        if isinstance(x, tuple):
            return False
        if not (-32768 <= x <= 32767):
            return False
        vals.append(x if x >= 0 else x + 65536)
    if len(vals) == 1:
        return vals[0] == cp and not (0xD800 <= vals[0] <= 0xDFFF)
    if len(vals) == 2:
        return (0xD800 <= vals[0] < 0xDC00 and 0xDC00 <= vals[1] < 0xE000
                and 0x10000 + (vals[0] - 0xD800) * 1024 + (vals[1] - 0xDC00) == cp)
    return False

def real_kernel(cp: int) -> bool:
    """
    pre: 32 <= cp <= 0x10FFFF and not (0xD800 <= cp <= 0xDFFF) and not (0x7f <= cp <= 0x9f)
    pre: cp not in (92, 123, 125)
    post: _
    """
    vf.HOLES.clear()
    ns = SimpleNamespace(text=chr(cp), convert=False)
    return check(TextContent._convert_special_chars(ns), cp)

def fixed_kernel(cp: int) -> bool:
    """
    pre: 32 <= cp <= 0x10FFFF and not (0xD800 <= cp <= 0xDFFF) and not (0x7f <= cp <= 0x9f)
    pre: cp not in (92, 123, 125)
    post: _
    """
    vf.HOLES.clear()
    return check(fixed(chr(cp)), cp)
