from typing import List
from rtflite.attributes import TableAttributes, TextAttributes
from rtflite.input import RTFPage
from rtflite.row import BORDER_CODES

LEGAL = sorted(BORDER_CODES)

def v_border(a: str, b: str, c: str, pos: int) -> bool:
    """
    pre: 0 <= pos <= 2
    pre: len(a) <= 3
    post: _
    """
    # one arbitrary string at a symbolic position in a 1x3 matrix, rest legal
    row = ["single", "", "double"]
    row[pos] = a
    try:
        TableAttributes.validate_border([row])
        return a in BORDER_CODES
    except ValueError:
        return a not in BORDER_CODES

def v_positive(x: int, pos: int) -> bool:
    """
    pre: 0 <= pos <= 2
    post: _
    """
    row = [1, 2, 3]
    row[pos] = x
    try:
        TableAttributes.validate_positive_value([row])
        return x > 0
    except ValueError:
        return x <= 0

def v_page(x: int) -> bool:
    """
    post: _
    """
    try:
        RTFPage.validate_width_height(x)
        return x > 0
    except ValueError:
        return x <= 0
