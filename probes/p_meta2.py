"""Probe: real calculate_row_metadata + _assign_pages on a fake frame (C03-O3 / C04-O3)."""
import rtflite.pagination.core as core
from types import SimpleNamespace as NS

class Col(list):
    pass
class FakeFrame:
    def __init__(self, cols):  # dict name -> list
        self._c = cols; self.columns = list(cols); self.width = len(cols)
        self.height = len(next(iter(cols.values()))) if cols else 0
    def row(self, i, named=False):
        return {k: v[i] for k, v in self._c.items()} if named else tuple(v[i] for v in self._c.values())
    def __getitem__(self, k): return Col(self._c[k])

class Meta:
    def __init__(self, rows, schema=None, orient=None):
        self.rows = [dict(r) for r in rows]; self.height = len(self.rows)
    def to_dicts(self): return [dict(r) for r in self.rows]
class PL:
    DataFrame = Meta; Int64 = "i64"; Boolean = "bool"

def run(keys, widths, nrow, add, new_page):
    saved = (core.pl, core.get_string_width)
    calls = []
    def gsw(text, font=None, font_size=None, **kw):
        calls.append(text)
        return 0.5  # every cell/heading needs exactly one line in a 1-inch column
    core.pl = PL; core.get_string_width = gsw
    try:
        df = FakeFrame({"g": keys, "v": ["x"] * len(keys)})
        calc = NS(pagination=NS(nrow=nrow))
        calc._calculate_header_rows = lambda *a, **k: core.PageBreakCalculator._calculate_header_rows(calc, *a, **k)
        calc._assign_pages = lambda *a, **k: core.PageBreakCalculator._assign_pages(calc, *a, **k)
        out = core.PageBreakCalculator.calculate_row_metadata(
            calc, df, [1.0], page_by=["g"], removed_column_indices=[0],
            additional_rows_per_page=add, new_page=new_page)
        return out.rows
    finally:
        core.pl, core.get_string_width = saved

def c3(k0: str, k1: str, k2: str, nrow: int, add: int, new_page: bool) -> bool:
    """
    pre: len(k0) == 1 and len(k1) == 1 and len(k2) == 1
    pre: nrow >= 1 and add >= 0
    post: _
    """
    keys = [k0, k1, k2]
    rows = run(keys, None, nrow, add, new_page)
    ok = True
    for i, r in enumerate(rows):
        start = (i == 0) or keys[i] != keys[i - 1]
        ok = ok and (r["is_group_start"] == start) and r["pageby_header_rows"] == (1 if start else 0)
        ok = ok and r["total_rows"] == 1 + (1 if start else 0)
    return ok

def twin(k0: str, k1: str, k2: str, nrow: int, add: int, new_page: bool) -> bool:
    """
    pre: len(k0) == 1 and len(k1) == 1 and len(k2) == 1
    pre: nrow >= 1 and add >= 0
    post: _
    """
    rows = run([k0, k1, k2], None, nrow, add, new_page)
    return rows[-1]["page"] < 3
