from rtflite.services.figure_service import RTFFigureService as S

def hexrt(data: bytes) -> bool:
    """
    pre: len(data) <= 3
    post: _
    """
    h = S._binary_to_hex(data)
    return bytes.fromhex(h.replace("\n", "")) == data and all(len(l) <= 80 for l in h.split("\n"))

def png(w: int, h: int) -> bool:
    """
    pre: 0 <= w < 2**32 and 0 <= h < 2**32
    post: _
    """
    data = b"\x89PNG\r\n\x1a\n" + b"\x00\x00\x00\rIHDR" + w.to_bytes(4, "big") + h.to_bytes(4, "big") + b"\x08\x02\x00\x00\x00" + b"xxxx"
    return S._get_png_dimensions(data) == (w, h)

def dim(a: float, b: float, n: int, i: int) -> bool:
    """
    pre: 1 <= n <= 2 and 0 <= i <= 4
    post: _
    """
    lst = [a, b][:n]
    r = S._get_dimension(lst, i)
    return r == (lst[i] if i < n else lst[-1])
