from types import SimpleNamespace as NS
from rtflite.encoding.renderer import PageRenderer

PLACE = ["first", "last", "all"]
class Enc:
    def encode_title(self, t, method="line"): return "TITLE"
    def encode_subline(self, t, method="line"): return "SUBLINE"
    def encode_footnote(self, f, page_number=None, page_col_width=None, border_style=None): return ["FOOTNOTE"]
    def encode_source(self, s, page_number=None, page_col_width=None, border_style=None): return ["SOURCE"]
    def encode_spanning_row(self, text, page_width, rtf_body_attrs=None, col_idx=0): return ["SPAN:" + text]
class DocSvc:
    def generate_page_break(self, document): return "BREAK"
class FigSvc:
    def encode_figure(self, f): return "FIG"

def render(first: bool, last: bool, pt: int, pf: int, ps: int, title: bool, subl: bool, fn: bool, src: bool,
           needs_header: bool, has_hdr: bool, sub_hdr: bool) -> bool:
    """
    pre: 0 <= pt <= 2 and 0 <= pf <= 2 and 0 <= ps <= 2
    post: _
    """
    r = PageRenderer.__new__(PageRenderer)
    r.encoding_service = Enc(); r.document_service = DocSvc(); r.figure_service = FigSvc()
    r._render_column_headers = lambda d, p: ["HEADER"]
    r._render_body = lambda d, p: ["BODY"]
    doc = NS(rtf_title=NS(text=["t"]) if title else None, rtf_subline=NS(text=["s"]) if subl else None,
             rtf_page=NS(page_title=PLACE[pt], page_footnote=PLACE[pf], page_source=PLACE[ps], col_width=6.0),
             rtf_figure=None, rtf_column_header=[object()] if has_hdr else [],
             rtf_body=NS(new_page=False, pageby_row="column", page_by=None),
             rtf_footnote=NS(text="f") if fn else None, rtf_source=NS(text="s") if src else None, df=None)
    page = NS(is_first_page=first, is_last_page=last, subline_header={"group_values": {"s": "G"}} if sub_hdr else None,
              needs_header=needs_header, pageby_header_info=None, component_borders={}, page_number=1)
    out = [x for x in PageRenderer.render(r, doc, page) if x != "\n"]
    def show(k): return k == "all" or (k == "first" and first) or (k == "last" and last)
    exp = []
    if not first: exp.append("BREAK")
    if title and show(PLACE[pt]): exp.append("TITLE")
    if subl and show(PLACE[pt]): exp.append("SUBLINE")
    if sub_hdr: exp.append("SUBHDR")
    if needs_header and has_hdr: exp.append("HEADER")
    exp.append("BODY")
    if fn and show(PLACE[pf]): exp.append("FOOTNOTE")
    if src and show(PLACE[ps]): exp.append("SOURCE")
    out = ["SUBHDR" if x.startswith("{\\pard") else x for x in out]
    return out == exp
