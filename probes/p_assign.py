"""Probe: symbolic execution of the real PageBreakCalculator._assign_pages."""
from typing import List, Tuple
import rtflite.pagination.core as core

class _FakeDF:
    def __init__(self, rows):
        self._rows = rows
        self.height = len(rows)
    def to_dicts(self):
        return [dict(r) for r in self._rows]

class _Cap:
    def __init__(self, rows): self.rows = rows

class _PL:
    """Stub of the polars namespace at the C boundary."""
    DataFrame = _Cap

class _Pag:
    def __init__(self, nrow): self.nrow = nrow
class _Self:
    def __init__(self, nrow): self.pagination = _Pag(nrow)

def run(heights: List[int], sub: List[bool], grp: List[bool], nrow: int, add: int, new_page: bool):
    core_pl = core.pl
    core.pl = _PL
    try:
        rows = [{"total_rows": h, "is_subline_start": s, "is_group_start": g, "page": 0}
                for h, s, g in zip(heights, sub, grp)]
        out = core.PageBreakCalculator._assign_pages(_Self(nrow), _FakeDF(rows), add, new_page)
        return [r["page"] for r in out.rows]
    finally:
        core.pl = core_pl

def check_monotone(heights: List[int], sub: List[bool], grp: List[bool], nrow: int, add: int, new_page: bool) -> List[int]:
    """
    pre: 1 <= len(heights) <= 4 and len(sub) == len(heights) and len(grp) == len(heights)
    pre: all(1 <= h <= 3 for h in heights)
    pre: 1 <= nrow <= 6 and 0 <= add <= 4
    post: _[0] == 1
    post: all(_[i+1] - _[i] in (0, 1) for i in range(len(_)-1))
    """
    return run(heights, sub, grp, nrow, add, new_page)

def check_budget(heights: List[int], sub: List[bool], grp: List[bool], nrow: int, add: int, new_page: bool) -> bool:
    """
    pre: 1 <= len(heights) <= 4 and len(sub) == len(heights) and len(grp) == len(heights)
    pre: all(1 <= h <= 3 for h in heights)
    pre: 1 <= nrow <= 6 and 0 <= add <= 4
    post: _
    """
    pages = run(heights, sub, grp, nrow, add, new_page)
    avail = max(1, nrow - add)
    ok = True
    for p in set(pages):
        idx = [i for i, q in enumerate(pages) if q == p]
        tot = sum(heights[i] for i in idx)
        if tot > avail and len(idx) > 1:
            ok = False
    return ok

def check_false_twin(heights: List[int], sub: List[bool], grp: List[bool], nrow: int, add: int, new_page: bool) -> bool:
    """
    pre: 1 <= len(heights) <= 4 and len(sub) == len(heights) and len(grp) == len(heights)
    pre: all(1 <= h <= 3 for h in heights)
    pre: 1 <= nrow <= 6 and 0 <= add <= 4
    post: _
    """
    pages = run(heights, sub, grp, nrow, add, new_page)
    return pages[-1] < 3
